#!/usr/bin/env python3
"""Merge selftest/sensitivity-partial.json (mutants re-run individually, e.g. after a check was strengthened) into
selftest/sensitivity.json by mutant id; the merged entries are marked with 'rerun': true."""
import json, os
V = os.path.dirname(os.path.dirname(os.path.abspath(__file__)))
full = json.load(open(os.path.join(V, "selftest", "sensitivity.json")))
part = json.load(open(os.path.join(V, "selftest", "sensitivity-partial.json")))
by = {r["id"]: r for r in part["results"]}
out = []
for r in full["results"]:
    if r["id"] in by:
        n = dict(by.pop(r["id"]))
        n["rerun"] = True
        out.append(n)
    else:
        out.append(r)
for r in by.values():
    r = dict(r); r["rerun"] = True; out.append(r)
full["results"] = out
full["mutants"] = len(out)
full["missed"] = sum(1 for r in out if not (r.get("caught") or (r.get("equivalent_mutant") and r.get("exit") == 0)))
json.dump(full, open(os.path.join(V, "selftest", "sensitivity.json"), "w"), indent=1, sort_keys=True)
print("merged: %d mutants, %d missed" % (full["mutants"], full["missed"]))

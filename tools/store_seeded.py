#!/usr/bin/env python3
"""tools/store_seeded.py <id> <srcdir> <json-meta>   -- keep a confirmed seeded change under /verif/seeded/<id>/"""
import json, os, shutil, sys
sid, src, meta = sys.argv[1], sys.argv[2], json.loads(sys.argv[3])
dst = os.path.join(os.path.dirname(os.path.dirname(os.path.abspath(__file__))), "seeded", sid)
os.makedirs(dst, exist_ok=True)
for f in ("patch.diff", "demo.py", "notes.md"):
    if os.path.exists(os.path.join(src, f)):
        shutil.copy(os.path.join(src, f), os.path.join(dst, f))
with open(os.path.join(dst, "meta.json"), "w") as fh:
    json.dump(meta, fh, indent=1, sort_keys=True)
print("stored", dst)

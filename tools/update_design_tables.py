#!/usr/bin/env python3
"""Rewrite the generated tables of DESIGN.md section 14 (between the BEGIN/END markers) from seeded/*/meta.json and
selftest/sensitivity.json."""
import json
import os
import re
import subprocess
import sys

V = os.path.dirname(os.path.dirname(os.path.abspath(__file__)))
p = os.path.join(V, "DESIGN.md")
s = open(p).read()


def block(name, text):
    global s
    pat = re.compile(r"(<!-- %s-BEGIN -->\n).*?(<!-- %s-END -->)" % (name, name), re.S)
    if not pat.search(s):
        sys.exit("marker %s missing" % name)
    s = pat.sub(lambda m: m.group(1) + text + m.group(2), s)


block("SEEDED", subprocess.run([sys.executable, os.path.join(V, "tools", "seeded_table.py")], stdout=subprocess.PIPE,
                               check=True).stdout.decode())
sp = os.path.join(V, "selftest", "sensitivity.json")
if os.path.exists(sp):
    d = json.load(open(sp))
    rows = ["| mutant | property | result | oracles that fired (first 4) |", "|---|---|---|---|"]
    for r in d["results"]:
        res = "caught" if r.get("caught") else ("equivalent mutant, no alarm (expected)" if r.get("equivalent_mutant") and r.get("exit") == 0 else "MISSED")
        rows.append("| %s | %s | %s | %s |" % (r["id"], r.get("property"), res, ", ".join((r.get("oracles") or [])[:4])))
    rows.append("")
    rows.append("%d mutants, %d missed, %.0f s (VERIF_SEED %s, quick tier)." % (d["mutants"], d["missed"], d["wall_s"], d["seed"]))
    block("MUTANTS", "\n".join(rows) + "\n")
open(p, "w").write(s)

#!/bin/sh
# tools/try_patch.sh <patch.diff> <prop> [<prop>...]   -- run checks against /repo's tree + a patch, in a scratch copy
cd "$(dirname "$0")/.." || exit 2
patchfile=$(readlink -f "$1"); shift
work=$(mktemp -d /tmp/pgsim-try-XXXXXX)
mkdir -p "$work"
cp -r /repo/src "$work/src"
find "$work" -name "*.so" -delete; find "$work" -name "__pycache__" -type d -exec rm -rf {} + 2>/dev/null
if ! patch -p1 --binary -d "$work" < "$patchfile" > "$work/patch.log" 2>&1; then
  if ! (cd "$work" && git apply --whitespace=nowarn "$patchfile") ; then echo "PATCH DOES NOT APPLY"; cat "$work/patch.log"; rm -rf "$work"; exit 3; fi
fi
for p in "$@"; do
  PYGOM_VERIF_SRC="$work/src" PGSIM_EVIDENCE_DIR="$work/ev" PGSIM_REPLAY_DIR="$work/replays" VERIF_TIER=${TIER:-quick} ./check $p ${TIER:-quick} > "$work/$p.log" 2>&1
  rc=$?
  echo "== $p exit=$rc"
  grep -E "^(VIOLATION|HARNESS|KNOWN)" "$work/$p.log" | cut -c1-400
  tail -1 "$work/$p.log" | cut -c1-200
done
if [ -n "$KEEP" ]; then echo "kept $work"; else rm -rf "$work"; fi

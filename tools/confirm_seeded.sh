#!/bin/sh
# tools/confirm_seeded.sh <id> <dir with patch.diff demo.py>  -- confirm a seeded change in a fresh scratch worktree (BASE=<commit> to confirm against an earlier tree)
id=$1; src=$2
wt=/tmp/confirm_$id
git -C /repo worktree remove --force $wt >/dev/null 2>&1; rm -rf $wt
git -C /repo worktree add --detach $wt ${BASE:-HEAD} >/dev/null 2>&1 || { echo "worktree failed"; exit 2; }
so=$(ls /repo/src/pygom/model/_tau_leap*.so 2>/dev/null | head -1)
if [ -n "$so" ]; then cp "$so" $wt/src/pygom/model/; else (cd $wt && /venv/bin/python setup.py build_ext --inplace >/dev/null 2>&1; git -C $wt checkout -- src/pygom/model/_tau_leap.c 2>/dev/null); fi
cp $src/demo.py $wt/demo_seeded.py
(cd $wt && PYTHONPATH=$wt/src timeout 1200 /venv/bin/python demo_seeded.py > $wt/demo_clean.log 2>&1); rc_clean=$?
(cd $wt && git apply --whitespace=nowarn $src/patch.diff) || { echo "$id: patch does not apply"; git -C /repo worktree remove --force $wt; exit 3; }
(cd $wt && PYTHONPATH=$wt/src timeout 1200 /venv/bin/python demo_seeded.py > $wt/demo_patched.log 2>&1); rc_patched=$?
(cd $wt && PYTHONPATH=$wt/src timeout 3000 /venv/bin/python -m pytest -q -p no:cacheprovider -n ${NPROC:-6} tests > $wt/tests.log 2>&1); rc_tests=$?
summary=$(tail -1 $wt/tests.log)
echo "$id demo_clean_exit=$rc_clean demo_patched_exit=$rc_patched tests_exit=$rc_tests tests='$summary'"
git -C /repo worktree remove --force $wt >/dev/null 2>&1
rm -rf $wt

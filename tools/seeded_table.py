#!/usr/bin/env python3
"""Print the markdown table of independently seeded changes (section 14 of DESIGN.md) from seeded/*/meta.json."""
import glob
import json
import os

V = os.path.dirname(os.path.dirname(os.path.abspath(__file__)))
print("| id | property | change | needs | first run of the checks | after strengthening |")
print("|---|---|---|---|---|---|")
for mp in sorted(glob.glob(os.path.join(V, "seeded", "*", "meta.json"))):
    m = json.load(open(mp))
    sid = os.path.basename(os.path.dirname(mp))
    f = lambda k: str(m.get(k, "")).replace("|", "/").replace("\n", " ")
    print("| %s | %s | %s | %s | %s | %s |" % (sid, f("property"), f("summary"), f("needs"), f("first_result"),
                                             (f("strengthening") + " -> " + f("result_after_strengthening")) if m.get("strengthening") else "-"))

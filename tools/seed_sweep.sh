#!/bin/sh
# run every quick check under several VERIF_SEED values; evidence goes to a scratch dir (not evidence of record)
cd "$(dirname "$0")/.." || exit 2
out=${SWEEP_OUT:-/tmp/pgsim-sweep}
mkdir -p "$out"
for seed in "$@"; do
  for p in C01 C02 C03 C04 C05 C06 C07 C08 C09 C10 C11 C12 C13 C15 C16 C17 C18 C19 C20; do
    VERIF_SEED=$seed PGSIM_EVIDENCE_DIR=$out/ev PGSIM_REPLAY_DIR=$out/replays ./check $p ${TIER:-quick} > $out/$p-$seed.log 2>&1
    rc=$?
    echo "seed=$seed $p exit=$rc $(tail -1 $out/$p-$seed.log | cut -c1-160)"
  done
done

#!/usr/bin/env python3
"""Merge selftest/seeded-partial.json (changes re-run individually) into selftest/seeded.json by id; rows of ids that no
longer exist under seeded/ (renamed) are dropped; merged rows are marked 'rerun': true."""
import json, os
V = os.path.dirname(os.path.dirname(os.path.abspath(__file__)))
full = json.load(open(os.path.join(V, "selftest", "seeded.json")))
part = json.load(open(os.path.join(V, "selftest", "seeded-partial.json")))
have = set(os.listdir(os.path.join(V, "seeded")))
by = {r["id"]: r for r in part["results"]}
out = []
for r in full["results"]:
    if r["id"] not in have:
        continue
    if r["id"] in by:
        n = dict(by.pop(r["id"])); n["rerun"] = True; out.append(n)
    else:
        out.append(r)
for r in by.values():
    r = dict(r); r["rerun"] = True; out.append(r)
out.sort(key=lambda r: r["id"])
full["results"] = out
full["changes"] = len(out)
def ok(r):
    meta = json.load(open(os.path.join(V, "seeded", r["id"], "meta.json")))
    neutral = "-led-to-" in r["id"] or "-neutralised-" in r["id"]
    return (not r.get("caught")) if neutral else (bool(r.get("caught")) or bool(meta.get("rare")) or bool(meta.get("uncovered")))
full["not_as_expected"] = sum(0 if ok(r) else 1 for r in out)
json.dump(full, open(os.path.join(V, "selftest", "seeded.json"), "w"), indent=1, sort_keys=True)
print("merged: %d changes, %d not as expected" % (full["changes"], full["not_as_expected"]))

#!/usr/bin/env python3
"""Regenerate /verif/MANIFEST.json from the table below (one place to keep it consistent)."""
import json
import os
import subprocess

VERIF = os.path.dirname(os.path.dirname(os.path.abspath(__file__)))

A = ("exploration by deterministic session simulation: seeded search over %s; every run is executed by the "
     "real PyGOM code and checked step by step against an independent reference model; failures are "
     "minimised, replayed in a fresh interpreter and only then reported")

CHECKS = {
    "C01": dict(engine="session", tech="deterministic simulation (K-seam fault injection) + seeded reference comparison",
                what="model definitions x API routes x compile back-end/fall-back plans x evaluation points",
                note="Truth of C01 does not depend on a schedule: the simulator contributes compile back-end diversity and injected "
                     "fall-back faults (K seam), the comparison itself is seeded input generation against a sympy reference. "
                     "Trusted: sympy parsing/differentiation in the reference, lambdify(math). Real Cython compiles are sampled sparsely.",
                ref="7 (C01)"),
    "C02": dict(engine="solver", tech="deterministic simulation (I-seam buffer-policy faults) + reference ODE solutions",
                what="models x grids (incl. integer dtype, fractional t0, long sparse gaps on oscillators) x entry points x methods x integrator buffer policies {native, fresh, reuse} x histories of re-bound parameters / initial values between solves on one object",
                note="Observed through the I seam (identity of the integrator's output array is simulated; numerics are the real scipy "
                     "integrators). Reference: scipy solve_ivp DOP853/Radau at rtol=atol=1e-11, a different code path. Class B in DESIGN 1.",
                ref="7 (C02)"),
    "C03": dict(engine="session", tech="deterministic simulation (K-seam fault injection) + seeded reference comparison",
                what="asymmetric model definitions x compile plans x points",
                note="As C01: schedule-independent truth, observed through every compile level. Reference derivatives by sympy.",
                ref="7 (C03)"),
    "C04": dict(engine="jump", tech="deterministic simulation: scripted/recorded random stream with adversarial draws, per-step refinement",
                what="event models x initial states x horizons x algorithms x random streams (natural and adversarially scripted)",
                note="The random stream IS the schedule. Natural stream = real numpy generator, recorded; scripted stream = inverse-CDF "
                     "sampler with tiny/huge/tied clocks and zero/tail Poisson counts, all inside the distributions' supports. "
                     "Hangs are detected by a deterministic draw cap (exact and fixed-tau modes).",
                ref="7 (C04)"),
    "C05": dict(engine="jump", tech="deterministic simulation (recorded natural stream) + exact-region statistical tests + per-step refinement",
                what="rates x population sizes x horizons on the natural stream only",
                note="Three layers: PIT of every recorded clock, holding-time/choice tests against reference rates, closed-form laws "
                     "(linear chains, SIR final size). All acceptance regions exact binomial or Hoeffding, total alpha <= 1e-8.",
                ref="7 (C05)"),
    "C06": dict(engine="solver", tech="deterministic simulation (shared-model clients interleaved, I-seam policies) + reference loss",
                what="loss classes x observed-state selections x weights/spreads x theta (explicit or the stored one), with other clients mutating the shared model between calls",
                note="Class B: a function of its input, observed on a shared mutable model under interleaving and integrator policies. "
                     "Reference: scipy.stats log-densities on solve_ivp solutions.",
                ref="7 (C06)"),
    "C07": dict(engine="solver", tech="deterministic simulation (shared-model clients, I-seam policies) + Richardson finite differences of cost",
                what="loss classes x state/parameter selections and orders x methods",
                note="Oracle is PyGOM's own cost (C06 pins that to the reference) differentiated numerically.", ref="7 (C07)"),
    "C08": dict(engine="session", tech="deterministic simulation of operation histories (mutators x observers x K-seam faults) vs fresh rebuild",
                what="histories of modifications and evaluations up to a bounded length, random observer subsets and orders, with a second live model (fresh or never-modified bystander) evaluated in between",
                note="Native to the technique: the quantifier is over histories. Oracle: fresh model rebuilt from the mutators only, and the reference model.",
                ref="7 (C08)"),
    "C09": dict(engine="session", tech="deterministic simulation of assignment histories with rejected operations as faults",
                what="sequences of parameter assignments in mixed formats (names, model symbols, caller-made symbols) with must-reject operations (unknown, reserved, state and near-miss names; wrong lengths) interleaved",
                note="Narrow relaxation after a rejected dict update (either-value mark on names it mentioned).", ref="7 (C09)"),
    "C10": dict(engine="jump+solver", tech="deterministic simulation (R seam paths, I seam integrations) + exact symbolic sums",
                what="transition-only models x routes x streams x integrators",
                note="Stochastic clause is native (every path, adversarial stream included); deterministic clauses are class B.", ref="7 (C10)"),
    "C11": dict(engine="jump", tech="deterministic simulation with adversarial Poisson tail counts and clocks",
                what="event models (also with explicit ODE drift under tau-leap) with lower/upper/two-sided/zero/absent limits x algorithms x adversarial streams",
                note="The tail-count fault is what exercises the guard; natural streams almost never do.", ref="7 (C11)"),
    "C12": dict(engine="session", tech="deterministic simulation of construction histories (route x order) + reference comparison",
                what="process sets x route assignments x insertion orders x declaration styles",
                note="Event order is matched up to the permutation induced by insertion order.", ref="7 (C12)"),
    "C13": dict(engine="session+solver", tech="deterministic simulation (K and I seams) + block-form reference + finite differences",
                what="models x points x sensitivity values x arrangements x integrators",
                note="Class B.", ref="7 (C13)"),
    "C15": dict(engine="jump", tech="deterministic simulation: same recorded stream replayed raw and gridded",
                what="event models x grids x streams",
                note="Underlying path obtained by re-running the identical stream with a scalar horizon.", ref="7 (C15)"),
    "C16": dict(engine="jump", tech="deterministic simulation of seed/run histories on one object, generator-construction probe",
                what="seed;op;seed;op histories with other generator consumers interleaved",
                note="This is the simulator's own determinism test applied to PyGOM.", ref="7 (C16)"),
    "C17": dict(engine="abc", tech="deterministic simulation of get/continue histories with independent recomputation of every particle",
                what="ABC problems x schedules x priors x get/continue sequences on the seeded natural stream",
                note="LinAlgError at small N is discarded, never a verdict.", ref="7 (C17)"),
    "C18": dict(engine="solver", tech="deterministic simulation (shared-model client scrambles parameters, I-seam policies) + direct oracle",
                what="catalogue models x boxes x starts x loss classes", note="Class B.", ref="7 (C18)"),
    "C19": dict(engine="distn", tech="deterministic simulation of seeding histories (global generator consumers interleaved) + scipy.stats reference",
                what="families x arguments x interleaved generator use",
                note="Only the seeding clause meets a seam; d/p/q clauses are plain reference sampling (said in DESIGN).", ref="7 (C19)"),
    "C20": dict(engine="solver", tech="deterministic simulation (I-seam policies) + reference sensitivities + finite differences of gradient",
                what="models x theta x observation sets", note="Known finding D8 (mixed terms) accepted only in its exact truncated form.", ref="7 (C20)"),
}

NA = {
    "C14": "loss kernels are immutable pure functions of (y, yhat, spread): no schedule, clock, fault, cache, random draw or shared "
           "state for a simulator to control; checking them would be input generation under another name (DESIGN section 8)",
}


def implemented():
    d = os.path.join(VERIF, "pgsim", "props")
    return sorted(f[:-3] for f in os.listdir(d) if f.startswith("C") and f.endswith(".py"))


def main():
    impl = implemented()
    checks = []
    for pid in sorted(CHECKS):
        if pid not in impl:
            continue
        c = CHECKS[pid]
        checks.append({
            "property_id": pid,
            "quick_cmd": "./check %s quick" % pid,
            "thorough_cmd": "./check %s thorough" % pid,
            "evidence_file": "/verif/evidence/%s.json" % pid,
            "replay_cmd_template": "./check %s --replay {path}" % pid,
            "engine": c["engine"],
            "level_claimed": {"category": "exploration", "text": A % c["what"], "design_ref": "DESIGN.md section " + c["ref"]},
            "level_note": c["note"],
            "technique": c["tech"],
        })
    na = [{"property_id": k, "reason": v} for k, v in sorted(NA.items())]
    for pid in sorted(CHECKS):
        if pid not in impl:
            na.append({"property_id": pid, "reason": "check not built yet in this snapshot (planned: DESIGN.md section %s); not claimed" % CHECKS[pid]["ref"]})
    try:
        hooks = []
    except Exception:
        hooks = []
    engines = {}
    for pid in impl:
        if pid in CHECKS:
            for e in CHECKS[pid]["engine"].split("+"):
                engines.setdefault(e, []).append(pid)
    man = {
        "version": 1,
        "setup_cmd": "./check setup",
        "hooks": {
            "guard": "PYGOM_VERIF",
            "enable": "no source hooks are needed: every seam is installed by rebinding module attributes from the harness "
                      "(pgsim/seams.py); the guard variable is therefore unused",
            "baseline_off_cmd": "cd /repo && /venv/bin/python -m pytest -ra -q -p no:cacheprovider --timeout=900 --continue-on-collection-errors",
            "source_commits": hooks,
            "add_only": True,
        },
        "engines": [{"name": e, "path": "pgsim/engines/%s.py" % e, "serves_properties": sorted(p),
                     "kind_free_text": "deterministic session simulator engine (see DESIGN.md section 7)"}
                    for e, p in sorted(engines.items())],
        "checks": checks,
        "not_applicable": na,
        "notes": "All checks: exit 0 = held on everything explored (KNOWN-FINDING lines allowed), exit 1 + VIOLATION line = reproduced "
                 "minimised violation, exit 2 = harness error (never with a VIOLATION line). VERIF_SEED selects the search; "
                 "VERIF_WORKERS the pool size (results do not depend on it).",
    }
    with open(os.path.join(VERIF, "MANIFEST.json"), "w") as f:
        json.dump(man, f, indent=1)
    print("MANIFEST.json: %d checks, %d not_applicable" % (len(checks), len(na)))


if __name__ == "__main__":
    main()

#!/usr/bin/env python3
"""Byte-exact replace that keeps a file's line endings: bedit.py FILE OLD NEW (OLD/NEW use \\n)."""
import sys
p, old, new = sys.argv[1], sys.argv[2], sys.argv[3]
b = open(p, 'rb').read()
crlf = b'\r\n' in b
o = old.encode(); n = new.encode()
if crlf:
    o = o.replace(b'\n', b'\r\n'); n = n.replace(b'\n', b'\r\n')
c = b.count(o)
if c != 1:
    sys.exit("expected exactly one occurrence, found %d" % c)
open(p, 'wb').write(b.replace(o, n))

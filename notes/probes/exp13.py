import warnings; warnings.filterwarnings("ignore")
import numpy as np, hashlib, sys
from pygom import SimulateOde, Transition, Event
import pygom.model.ode_utils as ou
real_aw=ou.autowrap
def fail(*a,**k): raise RuntimeError("injected toolchain absent")
ou.autowrap=fail
m = SimulateOde(state=['A','B','C'], param=['k','c','d','e'], event=[
    Event(rate='k*A*B/(1+A)+e*C*A', transition_list=[Transition(origin='A',destination='B',transition_type='T',magnitude='2')]),
    Event(rate='c*exp(-B)*C', transition_list=[Transition(destination='A',transition_type='B')]),
    Event(rate='d*B*(1+0.5*cos(2*t))', transition_list=[Transition(origin='B',transition_type='D'),Transition(origin='A',destination='C',transition_type='T',magnitude='d')]),
    Event(rate='e*C', transition_list=[Transition(origin='C',destination='A',transition_type='T')]),
]); m.parameters=[.5,2.,.3,.7]
x=[3.1,2.3,1.7]; h=hashlib.sha256()
for name in ['ode','jacobian','grad','diff_jacobian','grad_jacobian','vMat','eventRateVector','transitionJacobian','transitionMean','transitionVar']:
    h.update(np.asarray(getattr(m,name)(x,0.37),float).tobytes())
m.initial_values=(x,np.float64(0)); h.update(m.integrate(np.linspace(.5,5,10)).tobytes())
print(sys.flags.hash_randomization, h.hexdigest()[:16], m._SC._backend)

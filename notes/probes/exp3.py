import warnings; warnings.filterwarnings("ignore")
import numpy as np, traceback
from pygom import SimulateOde, Transition, Event, TransitionType
from pygom.model import ode_utils
def mk(states, params, events, pv, x0, backend='lambda'):
    m = SimulateOde(states, params, event=events)
    m._SC = ode_utils.compileCode(backend=backend)
    m.parameters = pv
    m.initial_values = (x0, np.float64(0))
    return m
# SIR small
ev1 = Event(rate='beta*S*I/N', transition_list=[Transition(origin='S', destination='I', transition_type='T')])
ev2 = Event(rate='gamma*I', transition_list=[Transition(origin='I', destination='R', transition_type='T')])
m = mk(['S','I','R'], ['beta','gamma','N'], [ev1,ev2], [0.8,0.3,30], [28,2,0])
np.random.seed(1)
X,J,T = m.solve_stochast(20, 2, exact=True, full_output=True)
print("exact raw", X[0].shape, J[0].shape, T[0].shape)
print(X[0][:5], J[0][:5], T[0][:5])
V = m.vMat([28,2,0],0); print("V", V)
for x,j,t in zip(X,J,T):
    d = np.diff(x,axis=0); print("walk ok", np.allclose(d, j@V.T), "t incr", np.all(np.diff(t)>0), "sum", set(x.sum(axis=1)))
np.random.seed(1)
X,J,T = m.solve_stochast(20, 2, exact=False, full_output=True)
print("tau raw", X[0].shape, J[0].shape, T[0].shape)
print(X[0][:5], J[0][:5], T[0][:5])
for x,j,t in zip(X,J,T):
    d = np.diff(x,axis=0); print("walk ok", np.allclose(d, j@V.T), "t incr", np.all(np.diff(t)>0), "sum", set(x.sum(axis=1)), "min", x.min())
# gridded exact
np.random.seed(2)
grid = np.linspace(0,20,6)
X,J,T = m.solve_stochast(grid, 2, exact=True, full_output=True)
print("grid exact", X[0], J[0], T)
np.random.seed(2)
X,J,T = m.solve_stochast(list(grid[1:]), 2, exact=True, full_output=True)
print("grid[1:] exact", X[0], J[0], T)
# single event
print("--- single event")
try:
    m1 = mk(['S','I'], ['beta'], [Event(rate='beta*S', transition_list=[Transition(origin='S', destination='I', transition_type='T')])], [0.5], [10,0])
    print(m1.vMat([10,0],0))
    print(m1.solve_stochast(5, 1, exact=True, full_output=True))
except Exception: traceback.print_exc()
print("--- single state")
try:
    m2 = mk(['S'], ['b','d'], [Event(rate='b', transition_list=[Transition(destination='S', transition_type='B')]), Event(rate='d*S', transition_list=[Transition(origin='S', transition_type='D')])], [1.0,0.2], [5])
    print(m2.vMat([5],0))
    print(m2.solve_stochast(5, 1, exact=True, full_output=True))
except Exception: traceback.print_exc()

import warnings; warnings.filterwarnings("ignore")
import numpy as np, time, scipy.stats as st, scipy.linalg
from pygom import SimulateOde, Transition, Event
import pygom.model.ode_utils as ou, pygom.model.stochastic_simulation as ss
ou.autowrap=lambda *a,**k: (_ for _ in ()).throw(RuntimeError("absent"))
trace=[]; real=ss.rexp
def rec(n,rate=1.0,seed=None):
    v=real(n,rate,seed=seed); trace.append((rate,v)); return v
ss.rexp=rec
def binom_region(n,p,alpha):
    return st.binom.ppf(alpha/2,n,p), st.binom.ppf(1-alpha/2,n,p)
# (3a) linear chain
k=3; rates=[0.7,0.25]; N=200; tobs=2.0; R=300
m=SimulateOde(['X1','X2','X3'],['r1','r2'],event=[Event(rate='r1*X1',transition_list=[Transition(origin='X1',destination='X2',transition_type='T')]),Event(rate='r2*X2',transition_list=[Transition(origin='X2',destination='X3',transition_type='T')])])
m.parameters=rates; m.initial_values=([N,0,0],np.float64(0))
t0=time.time(); np.random.seed(12345)
X=m.solve_stochast(np.array([0.,tobs]),R,exact=True,full_output=False)
tot=np.sum([x[-1] for x in X],axis=0); print("chain time",time.time()-t0,"draws",len(trace))
Q=np.array([[-.7,.7,0],[0,-.25,.25],[0,0,0]]); p=scipy.linalg.expm(Q*tobs)[0]
alpha=1e-9
for j in range(3):
    lo,hi=binom_region(N*R,p[j],alpha/3); print("stage",j,tot[j],(lo,hi),lo<=tot[j]<=hi, "expected",N*R*p[j])
# (1) PIT
r=np.array([a for a,_ in trace]); v=np.array([b for _,b in trace]); u=-np.expm1(-r*v)
cnt=np.histogram(u,bins=20,range=(0,1))[0]; n=len(u)
lo,hi=binom_region(n,1/20,alpha/20); print("PIT n",n,"min/max bin",cnt.min(),cnt.max(),(lo,hi), np.all((cnt>=lo)&(cnt<=hi)), "rate range", r.min(), r.max())
# what a reciprocal-scale mutant would look like
u2=-np.expm1(-r*(v*r*r)); c2=np.histogram(u2,bins=20,range=(0,1))[0]; print("mutant bins",c2[:3],c2[-3:])
# (3b) SIR final size
trace.clear()
Npop=30; beta,gamma=1.5,1.0
s=SimulateOde(['S','I','R'],['beta','gamma','N'],event=[Event(rate='beta*S*I/N',transition_list=[Transition(origin='S',destination='I',transition_type='T')]),Event(rate='gamma*I',transition_list=[Transition(origin='I',destination='R',transition_type='T')])])
s.parameters=[beta,gamma,Npop]; s.initial_values=([Npop-2,2,0],np.float64(0))
t0=time.time(); np.random.seed(777); Xs=s.solve_stochast(1e6,2000,exact=True,full_output=False); print("sir time",time.time()-t0)
fs=np.array([x[-1][2] for x in Xs],int)
# DP over (s,i)
from functools import lru_cache
import sys; sys.setrecursionlimit(10000)
P={}
def dist(s0,i0):
    prob={ (s0,i0):1.0 }; final=np.zeros(Npop+1)
    stack=[(s0,i0)]
    # process in order of decreasing (s+i... ) use BFS layered by number of events
    layer={(s0,i0):1.0}
    while layer:
        nxt={}
        for (s_,i_),pr in layer.items():
            if i_==0: final[Npop-s_]+=pr; continue
            a=beta*s_*i_/Npop; b=gamma*i_
            if a>0: nxt[(s_-1,i_+1)]=nxt.get((s_-1,i_+1),0)+pr*a/(a+b)
            nxt[(s_,i_-1)]=nxt.get((s_,i_-1),0)+pr*b/(a+b)
        layer=nxt
    return final
pmf=dist(Npop-2,2); print("pmf sum",pmf.sum())
obs=np.bincount(fs,minlength=Npop+1); ok=True
for kk in range(Npop+1):
    if pmf[kk]>0:
        lo,hi=binom_region(len(fs),pmf[kk],alpha/(Npop+1))
        if not (lo<=obs[kk]<=hi): ok=False; print("bin",kk,obs[kk],lo,hi)
print("final size ok",ok, "mean obs",fs.mean(),"mean exact",(np.arange(Npop+1)*pmf).sum())

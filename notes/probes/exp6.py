import warnings; warnings.filterwarnings("ignore")
import numpy as np, traceback
from pygom import SimulateOde, Transition, Event, TransitionType
from pygom.model import ode_utils
def mk(**kw):
    m = SimulateOde(**kw); m._SC = ode_utils.compileCode(backend='lambda'); return m
ev1 = lambda: Event(rate='beta*S*I/N', transition_list=[Transition(origin='S', destination='I', transition_type='T')])
ev2 = lambda: Event(rate='gamma*I', transition_list=[Transition(origin='I', destination='R', transition_type='T')])
x=[90.,7.,3.]
print("== C09 formats")
m=mk(state=['S','I','R'], param=['beta','gamma','N'], event=[ev1(),ev2()])
def show(tag):
    try: print(tag, m.ode(x,0), m._paramValue)
    except Exception as e: print(tag,"EXC",type(e).__name__,e)
for tag,val in [("list",[.5,.2,100.]),("tuple",(.6,.2,100.)),("arr",np.array([.7,.2,100.])),
                ("pairs perm",[('N',100.),('beta',.8),('gamma',.25)]),("dict",{'gamma':.3,'N':100.,'beta':.9}),
                ("partial dict",{'beta':1.0}),("symbol key",None),("bad name",{'zeta':1.}),("short list",[.5,.2]),("long list",[.5,.2,100.,1.]),
                ("bad pair",[('zeta',1.),('beta',.8),('gamma',.25)]),("short pairs",[('beta',.8),('gamma',.25)]),("too many dict",{'beta':1,'gamma':1,'N':1,'q':1}),
                ("list after dict",[.5,.2,100.]),("partial after list",{'gamma':.9}),("int values",[1,2,100])]:
    try:
        if tag=="symbol key":
            val={m._paramDict['beta']:1.1}
        m.parameters=val; show(tag)
    except BaseException as e: print(tag,"REJECT",type(e).__name__,str(e)[:80])
print("== C08 stale")
m=mk(state=['S','I','R'], param=['beta','gamma','N'], event=[ev1()])
m.parameters=[.5,.2,100.]
print("ode1",m.ode(x,0),"jac",m.jacobian(x,0)[1], "rates", m.eventRateVector(x,0), "vMat", m.vMat(x,0))
m.add_event(ev2())
print("jac after add (no ode call)", m.jacobian(x,0)[1]); print("rates", m.eventRateVector(x,0)); print("vMat",m.vMat(x,0)); print("ode2",m.ode(x,0)); print("grad", m.grad(x,0))
m.param_list=['mu']; 
try:
    m.parameters=[.5,.2,100.,0.01]; m.add_birth_death(Transition(origin='S',equation='mu*S',transition_type='D')); print("ode3",m.ode(x,0),m.grad(x,0).shape, m.transitionMean(x,0))
except Exception as e: traceback.print_exc(limit=3)
m.add_ode(Transition(origin='R',equation='-0.1*R',transition_type='ODE')); print("ode4",m.ode(x,0), m.pureOdeVector(x,0), m.jacobian(x,0)[2])
print("== C12 routes")
A=mk(state=['S','I','R'], param=['beta','gamma','N','mu','B'], event=[ev1(),ev2(), Event(rate='B', transition_list=[Transition(destination='S',transition_type='B')]), Event(rate='mu*R', transition_list=[Transition(origin='R',transition_type='D')])])
B=mk(state='S I R', param='beta,gamma N mu B', transition=[Transition(origin='S',destination='I',equation='beta*S*I/N',transition_type='T'),Transition(origin='I',destination='R',equation='gamma*I',transition_type='T')], birth_death=[Transition(origin='S',equation='B',transition_type='B'),Transition(origin='R',equation='mu*R',transition_type='D')])
C=mk(state=['S','I','R'], param=['beta','gamma','N','mu','B'], ode=[Transition(origin='S',equation='-beta*S*I/N+B'),Transition(origin='I',equation='beta*S*I/N-gamma*I'),Transition(origin='R',equation='gamma*I-mu*R')])
D=mk(state=['S','I','R'], param=['beta','gamma','N','mu','B'], event=[Transition(origin='R',equation='mu*R',transition_type='D'), Transition(origin='S',destination='I',equation='beta*S*I/N',transition_type='T')])
D.add_event(ev2()); D.add_birth_death(Transition(destination='S',equation='B',transition_type='B'))
for M in (A,B,C,D):
    M.parameters=[.5,.2,100.,.01,2.]
    print(M.get_ode_eqn().T, M.ode(x,0), M.jacobian(x,0)[0])
print("== range-style names")
E=mk(state=['y1:4'], param=['k1:3'], event=[Event(rate='k1*y1', transition_list=[Transition(origin='y1',destination='y2',transition_type='T')]), Event(rate='k2*y2*y3', transition_list=[Transition(origin='y2',destination='y3',transition_type='T', magnitude='2')])])
E.parameters=[.5,.2]; print(E.state_list, E.param_list, E.get_ode_eqn().T, E.ode(x,0), E.vMat(x,0))
print("== time periodic + derived")
F=mk(state=['S','I'], param=['b0','g','d'], derived_param=[('bt','b0*(1+d*cos(2*t))')], event=[Event(rate='bt*S*I', transition_list=[Transition(origin='S',destination='I',transition_type='T')]), Event(rate='g*I',transition_list=[Transition(origin='I',destination='S',transition_type='T')])])
F.parameters=[.5,.2,.3]; print(F.get_ode_eqn().T, F.ode([5.,2.],0.7), 0.5*(1+.3*np.cos(1.4))*10-.4)

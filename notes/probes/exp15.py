import warnings; warnings.filterwarnings("ignore")
import numpy as np, time, logging, scipy.stats as st, scipy.integrate
logging.disable(logging.CRITICAL)
from pygom import SimulateOde, Transition, Event
import pygom.model.ode_utils as ou, pygom.model.stochastic_simulation as ss
from pygom import approximate_bayesian_computation as pgabc
ou.autowrap=lambda *a,**k: (_ for _ in ()).throw(RuntimeError("absent"))
def mk():
    return SimulateOde(['S','I','R'],['beta','gamma','N'],event=[Event(rate='beta*S*I/N',transition_list=[Transition(origin='S',destination='I',transition_type='T')]),Event(rate='gamma*I',transition_list=[Transition(origin='I',destination='R',transition_type='T')])])
def ref(b,g,N,x0,ts):
    f=lambda tt,x:[-b*x[0]*x[1]/N, b*x[0]*x[1]/N-g*x[1], g*x[1]]
    return scipy.integrate.solve_ivp(f,(ts[0],ts[-1]),x0,t_eval=ts,rtol=1e-11,atol=1e-11,method='DOP853').y.T
m=mk(); m.parameters=[.6,.25,100.]; x0=[95.,5.,0.]; t=np.linspace(0,10,11); m.initial_values=(x0,t[0])
y=ref(.6,.25,100.,x0,t)[1:,[1,2]]
# user lists gamma first (log scale), then beta; plus initial state I
pars=[pgabc.Parameter('gamma','unif',-1.0,-0.3,logscale=True), pgabc.Parameter('beta','unif',0.4,0.9,logscale=False), pgabc.Parameter('I','unif',3,8,logscale=False)]
obj=pgabc.create_loss("SquareLoss",pars,m,x0,t[0],t[1:],y,['I','R'])
abc=pgabc.ABC(obj,pars); print("par_order",abc.par_order, obj._targetParam, obj._targetState)
np.random.seed(3); t0=time.time()
abc.get_posterior_sample(N=30,tol=np.inf,G=3,q=0.5); print("time",time.time()-t0,"tol",abc.tolerances,"acc",abc.acceptance_rate)
def check(abc):
    bad=0
    for p,d,w in zip(abc.res,abc.dist,abc.w):
        g=10**p[0]; b=p[1]; I0=p[2]
        dens=st.uniform(-1,.7).pdf(p[0])*st.uniform(.4,.5).pdf(p[1])*st.uniform(3,5).pdf(p[2])
        c=((y-ref(b,g,100.,[95.,I0,0.],t)[1:,[1,2]])**2).sum()
        if not(dens>0 and abs(c-d)<=1e-5*(1+c) and d<abc.final_tol and np.isfinite(w) and w>0): bad+=1; print(p,d,c,dens,w)
    return bad
print("bad",check(abc), "tols nonincreasing", np.all(np.diff(abc.tolerances)<=0))
abc.continue_posterior_sample(N=30,tol=abc.next_tol,G=2,q=0.5); print("cont tol",abc.tolerances,"bad",check(abc))
# C11 tail count
trace=[]
def scr_rpois(n,mu=1.0,seed=None): trace.append(mu); return int(st.poisson.ppf(1-1e-12,mu))
ss.rpois=scr_rpois
s=mk(); s.parameters=[2.5,.1,30.]; s.initial_values=([25.,5.,0.],np.float64(0)); s.pre_tau=0.2
X,J,T=s.solve_stochast(3.,1,exact=False,full_output=True); print("tail count path", X[0].tolist()[:6], "min",X[0].min(), "len",len(T[0]), J[0][:3].tolist())
r=ss.tauLeap(np.array([25.,5.,0.]), s._state_lims, 0.0, s.vMat, s.get_ReactantMatrix(), s.eventRateVector, s.transitionMean, s.transitionVar, s.pureOdeVector, pre_tau=5.0)
print("direct tauLeap reject ->", r)

import warnings; warnings.filterwarnings("ignore")
import numpy as np, traceback, time, logging
logging.disable(logging.CRITICAL)
from pygom import SimulateOde, Transition, Event, SquareLoss
from pygom.model import ode_utils
from pygom import approximate_bayesian_computation as pgabc
import scipy.stats
from pygom.utilR import rgamma
def mk():
    ev1 = Event(rate='beta*S*I/N', transition_list=[Transition(origin='S', destination='I', transition_type='T')])
    ev2 = Event(rate='gamma*I', transition_list=[Transition(origin='I', destination='R', transition_type='T')])
    m = SimulateOde(['S','I','R'], ['beta','gamma','N'], event=[ev1,ev2]); m._SC = ode_utils.compileCode(backend='lambda'); return m
m=mk(); m.parameters=[.8,.3,30.]; m.initial_values=([28.,2.,0.],np.float64(0))
t0=time.time(); np.random.seed(3); X,J,T=m.solve_stochast(30.,20,exact=True,full_output=True); print("20 exact runs",time.time()-t0, sum(len(t) for t in T))
t0=time.time(); np.random.seed(3); X2,J2,T2=m.solve_stochast(30.,20,exact=True,full_output=True); print("same", all(np.array_equal(a,b) for a,b in zip(X,X2)))
m.pre_tau=0.1
t0=time.time(); np.random.seed(3); X,J,T=m.solve_stochast(30.,20,exact=False,full_output=True); print("20 tau runs fixed",time.time()-t0, sum(len(t) for t in T), min(x.min() for x in X))
# random params
m2=mk(); m2.parameters={'beta':scipy.stats.gamma(100.,0.,1/200.),'gamma':(rgamma,(100.,300.)),'N':30.}
m2.initial_values=([28.,2.,0.],np.float64(0))
tt=np.linspace(0,10,6)
for f in ('simulate_param','solve_determ'):
    np.random.seed(5); Y,Yall=getattr(m2,f)(tt[1:],7,full_output=True)
    np.random.seed(5); Yb,Yallb=getattr(m2,f)(tt[1:],7,full_output=True)
    print(f,"same",np.array_equal(Y,Yb), "mean ok", np.allclose(Y,np.mean(Yall,axis=0)), len(Yall), Y.shape)
# ABC
m3=mk(); m3.parameters=[.6,.25,100.]; x0=[95.,5.,0.]; t=np.linspace(0,10,11); m3.initial_values=(x0,t[0])
sol=m3.integrate(t[1:]); y=sol[1:,1:3]
pars=[pgabc.Parameter('beta','unif',0,2,logscale=False), pgabc.Parameter('gamma','unif',0,2,logscale=False)]
obj=pgabc.create_loss("SquareLoss",pars,m3,x0,t[0],t[1:],y,['I','R'])
abc=pgabc.ABC(obj,pars)
t0=time.time(); np.random.seed(1)
try:
    abc.get_posterior_sample(N=30,tol=np.inf,G=3,q=0.5); print("abc",time.time()-t0, abc.tolerances, abc.final_tol, abc.dist.max(), abc.w.min(), abc.acceptance_rate)
    abc.continue_posterior_sample(N=30,tol=abc.next_tol,G=2,q=0.5); print("cont", abc.tolerances, abc.final_tol, abc.dist.max(), np.median(abc.res,axis=0))
except Exception: traceback.print_exc(limit=4)

import warnings; warnings.filterwarnings("ignore")
import numpy as np
from pygom import SimulateOde, Transition, Event
from pygom.model import ode_utils
def mk():
    m = SimulateOde(state=['S','I','R'], param=['beta','gamma','N'], event=[Event(rate='beta*S*I/N', transition_list=[Transition(origin='S', destination='I', transition_type='T')])])
    m._SC = ode_utils.compileCode(backend='lambda'); m.parameters=[.5,.2,100.]; return m
x=[90.,7.,3.]
m=mk(); print("before", m.ode(x,0), m.pureOdeVector(x,0))
m.add_ode(Transition(origin='R',equation='-0.1*R',transition_type='ODE'))
print("after add_ode", m.ode(x,0), m.pureOdeVector(x,0), m.get_ode_eqn().T)
f=mk(); f.add_ode(Transition(origin='R',equation='-0.1*R',transition_type='ODE')); print("fresh", f.ode(x,0), f.pureOdeVector(x,0))
# derived param added later
m=mk(); print(m.ode(x,0)); m.derived_param_list=[('b2','beta*2')]; m.add_event(Event(rate='b2*I', transition_list=[Transition(origin='I',destination='R',transition_type='T')])); print("derived", m.ode(x,0))
# parameter value change only
m=mk(); a=m.ode(x,0); m.parameters={'beta':1.0}; print("param change", a, m.ode(x,0))
# state added later
m=mk(); m.ode(x,0); 
try:
    m.state_list=['D']; m.add_event(Event(rate='gamma*I', transition_list=[Transition(origin='I',destination='D',transition_type='T')])); print("state added", m.ode(x+[0.],0), m.jacobian(x+[0.],0).shape)
except Exception as e: print("state add EXC", type(e).__name__, e)

import warnings; warnings.filterwarnings("ignore")
import numpy as np, traceback
from pygom import SimulateOde, Transition, Event, TransitionType, SquareLoss, NormalLoss, PoissonLoss, GammaLoss, NegBinomLoss
from pygom.model import ode_utils
import scipy.integrate
def mk():
    ev1 = Event(rate='beta*S*I/N', transition_list=[Transition(origin='S', destination='I', transition_type='T')])
    ev2 = Event(rate='gamma*I', transition_list=[Transition(origin='I', destination='R', transition_type='T')])
    m = SimulateOde(['S','I','R'], ['beta','gamma','N'], event=[ev1,ev2])
    m._SC = ode_utils.compileCode(backend='lambda')
    return m
theta=[0.6,0.25,100.]
x0=[95.,5.,0.]
t=np.array([0.,1.,2.5,3.,5.,8.])
def ref(theta,x0,ts):
    b,g,N=theta
    f=lambda tt,x:[-b*x[0]*x[1]/N, b*x[0]*x[1]/N-g*x[1], g*x[1]]
    r=scipy.integrate.solve_ivp(f,(ts[0],ts[-1]),x0,t_eval=ts,rtol=1e-11,atol=1e-11,method='DOP853')
    return r.y.T
sol=ref(theta,x0,t)
def fdgrad(f,th,h=1e-6):
    th=np.array(th,float); return np.array([(f(th+h*e)-f(th-h*e))/(2*h) for e in np.eye(len(th))])
print("== target_param order")
for tp in [['beta','gamma'],['gamma','beta'],['N','beta'],['gamma']]:
    m=mk(); m.parameters=theta; m.initial_values=(x0,t[0])
    y=sol[1:,[1,2]]*1.1+0.3
    th0=[dict(beta=.5,gamma=.3,N=100.)[p] for p in tp]
    try:
        obj=SquareLoss(th0,m,x0,t[0],t[1:],y,['I','R'],target_param=tp)
        g=obj.sensitivity(th0); fd=fdgrad(obj.cost,th0)
        # independent cost
        full=dict(beta=.6,gamma=.25,N=100.); full.update(dict(zip(tp,th0)))
        cref=((y-ref([full['beta'],full['gamma'],full['N']],x0,t)[1:,[1,2]])**2).sum()
        print(tp,"cost",obj.cost(th0),"ref",cref,"grad",g,"fd",fd,np.allclose(g,fd,rtol=1e-4))
    except Exception as e: print(tp,"EXC",type(e).__name__,e); traceback.print_exc(limit=2)
print("== IV")
for ts_ in [None,['S','I'],['I','S'],['R']]:
  for tp in [None,['gamma','beta']]:
    m=mk(); m.parameters=theta; m.initial_values=(x0,t[0])
    y=sol[1:,[1,2]]*1.1+0.3
    th0=[.5,.3,100.] if tp is None else [.3,.5]
    xs = x0 if ts_ is None else [dict(S=90.,I=7.,R=1.)[s] for s in ts_]
    try:
        obj=SquareLoss(th0,m,x0,t[0],t[1:],y,['I','R'],target_param=tp,target_state=ts_)
        v=np.array(th0+list(xs))
        g=obj.sensitivityIV(v); fd=fdgrad(obj.costIV,v)
        print(tp,ts_,"gradIV",g,"fd",fd,np.allclose(g,fd,rtol=1e-4,atol=1e-4))
    except Exception as e: print(tp,ts_,"EXC",type(e).__name__,e); traceback.print_exc(limit=2)
print("== weights")
for L,kw in [(SquareLoss,{}),(NormalLoss,{'sigma':1.3}),(PoissonLoss,{}),(GammaLoss,{'shape':3.}),(NegBinomLoss,{'k':2.5})]:
    m=mk(); m.parameters=theta; m.initial_values=(x0,t[0])
    y=np.round(sol[1:,[1,2]]*1.1+0.3)
    w=np.array([[1.,2.],[0.5,1.],[3.,1.],[1.,1.],[2.,0.5]])
    try:
        obj=L([.5,.3,100.],m,x0,t[0],t[1:],y,['I','R'],state_weight=w,**kw)
        g=obj.sensitivity([.5,.3,100.]); fd=fdgrad(obj.cost,[.5,.3,100.])
        print(L.__name__,"w grad",g,"fd",fd,np.allclose(g,fd,rtol=1e-4))
    except Exception as e: print(L.__name__,"EXC",type(e).__name__,e); traceback.print_exc(limit=2)
print("== jtj / hessian")
m=mk(); m.parameters=theta; m.initial_values=(x0,t[0])
y=sol[1:,[1,2]]*1.1+0.3
obj=SquareLoss([.5,.3,100.],m,x0,t[0],t[1:],y,['I','R'])
th=np.array([.5,.3,100.])
J=obj.jtj(th); print("jtj",J)
H=obj.hessian(th); print("hess",H)
Hfd=np.array([(obj.sensitivity(th+1e-5*e)-obj.sensitivity(th-1e-5*e))/2e-5 for e in np.eye(3)])
print("fd hess",Hfd)
# jtj reference: sum outer products of sensitivities of observed states
def sens_fd(th):
    h=1e-6
    return np.stack([(ref(th+h*e,x0,t)[1:,[1,2]]-ref(th-h*e,x0,t)[1:,[1,2]])/(2*h) for e in np.eye(3)],axis=-1) # n x s x p
S=sens_fd(th); print("jtj ref", sum(S[i].T@S[i] for i in range(S.shape[0])))

import warnings; warnings.filterwarnings("ignore")
import numpy as np, traceback
from pygom import SimulateOde, Transition, Event, TransitionType, SquareLoss, NormalLoss, PoissonLoss, GammaLoss, NegBinomLoss
from pygom.model import ode_utils
import scipy.integrate
def mk():
    ev1 = Event(rate='beta*S*I/N', transition_list=[Transition(origin='S', destination='I', transition_type='T')])
    ev2 = Event(rate='gamma*I', transition_list=[Transition(origin='I', destination='R', transition_type='T')])
    m = SimulateOde(['S','I','R'], ['beta','gamma','N'], event=[ev1,ev2])
    m._SC = ode_utils.compileCode(backend='lambda')
    return m
m = mk()
theta=[0.6,0.25,100.]
x0=[95.,5.,0.]
t=np.array([0.,1.,2.5,3.,5.,8.])
m.parameters=theta; m.initial_values=(x0,t[0])
def ref(theta,x0,ts):
    b,g,N=theta
    f=lambda tt,x:[-b*x[0]*x[1]/N, b*x[0]*x[1]/N-g*x[1], g*x[1]]
    r=scipy.integrate.solve_ivp(f,(ts[0],ts[-1]),x0,t_eval=ts,rtol=1e-11,atol=1e-11,method='DOP853')
    return r.y.T
sol=ref(theta,x0,t)
y=sol[1:,[2,1]]*1.1+0.3
for L,kw in [(SquareLoss,{}),(NormalLoss,{'sigma':1.3}),(PoissonLoss,{}),(GammaLoss,{'shape':3.0}),(NegBinomLoss,{'k':2.5})]:
  for states in [['I','R'],['R','I'],['S','R'],['R']]:
    try:
        idx=[['S','I','R'].index(s) for s in states]; yy=(sol[1:,idx]*1.1+0.3); yy = yy if len(states)==2 else yy[:,0]
        if L in (PoissonLoss,NegBinomLoss): yy=np.round(yy)
        obj=L(theta,m,x0,t[0],t[1:],yy,states,**kw)
        th=np.array([0.5,0.3,100.])
        c=obj.cost(th)
        g=obj.sensitivity(th)
        h=1e-6
        fd=np.array([(obj.cost(th+h*e)-obj.cost(th-h*e))/(2*h) for e in np.eye(3)])
        print(L.__name__, states, "cost",c, "grad",g, "fd",fd, "ok", np.allclose(g,fd,rtol=1e-4,atol=1e-5))
    except Exception as e:
        print(L.__name__, states, "EXC", type(e).__name__, e); traceback.print_exc(limit=3)

import warnings; warnings.filterwarnings("ignore")
import numpy as np
from pygom import common_models
from pygom.model import ode_utils
m = common_models.SIR({'beta':0.5,'gamma':0.2,'N':100})
m._SC = ode_utils.compileCode(backend='lambda')
m.initial_values=([99.,1.,0.],0)
t=np.linspace(1,5,5)
for meth in [None,'lsoda','vode','ivode','dopri5','dop853']:
  for fo in [False, True]:
    for io in [False, True]:
        r = ode_utils.integrateFuncJac(m.ode_T, m.jacobian_T, np.array([99.,1.,0.]), 0, t, includeOrigin=io, full_output=fo, method=meth)
        sol = r[0] if fo else r
        print(meth, fo, io, sol.shape, sol[:,0])

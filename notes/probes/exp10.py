import warnings; warnings.filterwarnings("ignore")
import numpy as np, traceback, sympy as sp
from pygom import SimulateOde, Transition, Event
from pygom.model import ode_utils
def mk():
    m = SimulateOde(state=['A','B'], param=['k','c','d'], event=[
        Event(rate='k*A*B/(1+A)', transition_list=[Transition(origin='A',destination='B',transition_type='T',magnitude='2')]),
        Event(rate='c*exp(-B)', transition_list=[Transition(destination='A',transition_type='B')]),
        Event(rate='d*B', transition_list=[Transition(origin='B',transition_type='D'),Transition(origin='A',transition_type='D',magnitude='d')]),
    ]); m._SC = ode_utils.compileCode(backend='lambda'); m.parameters=[.5,2.,.3]; return m
m=mk(); nS,nP=2,3
A,B,k,c,d=sp.symbols('A B k c d',real=True)
a=sp.Matrix([k*A*B/(1+A), c*sp.exp(-B), d*B]); V=sp.Matrix([[-2,1,-d],[2,0,-1]]); f=V*a
X=[A,B]; TH=[k,c,d]; pt={A:3.,B:2.,k:.5,c:2.,d:.3}
ev=lambda M: np.array(sp.Matrix(M).subs(pt).evalf().tolist(),float)
x=[3.,2.]
print("jac",np.allclose(m.jacobian(x,0),ev(f.jacobian(X))))
print("grad",np.allclose(m.grad(x,0),ev(f.jacobian(TH))))
DJ=sp.Matrix.vstack(*[sp.hessian(fi,X) for fi in f]); print("diff_jac",np.allclose(m.diff_jacobian(x,0),ev(DJ)))
GJ=sp.Matrix([[sp.diff(f[i],TH[kk],X[j]) for j in range(nS)] for kk in range(nP) for i in range(nS)]); print("grad_jac",np.allclose(m.grad_jacobian(x,0),ev(GJ)))
F=a.jacobian(X)*V; print("tJ",np.allclose(m.transitionJacobian(x,0),ev(F)))
print("tMean",np.allclose(m.transitionMean(x,0),ev(F*a).ravel()), "tVar",np.allclose(m.transitionVar(x,0),ev(F.multiply_elementwise(F)*a).ravel()))
# C13
rng=np.random.default_rng(0); S=rng.normal(size=(nS,nP)); S0=rng.normal(size=(nS,nS))
J=ev(f.jacobian(X)); G=ev(f.jacobian(TH)); fx=ev(f).ravel()
z=np.concatenate([x,S.flatten('F')]); out=m.ode_and_sensitivity(z,0.)
print("sens by-param",np.allclose(out,np.concatenate([fx,(J@S+G).flatten('F')])))
z2=np.concatenate([x,S.flatten('C')]); out2=m.ode_and_sensitivity(z2,0.,by_state=True)
print("sens by-state",np.allclose(out2,np.concatenate([fx,(J@S+G).flatten('C')])))
zi=np.concatenate([x,S.flatten('F'),S0.flatten('F')]); outi=m.ode_and_sensitivityIV(zi,0.)
print("sensIV",np.allclose(outi,np.concatenate([fx,(J@S+G).flatten('F'),(J@S0).flatten('F')])))
def fdjac(fun,z,h=1e-6):
    z=np.array(z,float); return np.stack([(fun(z+h*e)-fun(z-h*e))/(2*h) for e in np.eye(len(z))],axis=1)
print("sens jac by-param",np.allclose(m.ode_and_sensitivity_jacobian(z,0.),fdjac(lambda q:m.ode_and_sensitivity(q,0.),z),atol=1e-5))
try: print("sens jac by-state",np.allclose(m.ode_and_sensitivity_jacobian(z2,0.,by_state=True),fdjac(lambda q:m.ode_and_sensitivity(q,0.,by_state=True),z2),atol=1e-5))
except Exception as e: print("by-state jac EXC",type(e).__name__,e)
print("sensIV jac",np.allclose(m.ode_and_sensitivityIV_jacobian(zi,0.),fdjac(lambda q:m.ode_and_sensitivityIV(q,0.),zi),atol=1e-5))
# K faults
import pygom.model.ode_utils as ou
real_lambdify=ou.lambdify
for level in ['numpy_fail','mpmath_fail']:
    def fl(expr,args,modules=None,**kw):
        if modules=='numpy': raise RuntimeError("injected")
        if modules=='mpmath' and level=='mpmath_fail': raise RuntimeError("injected")
        return real_lambdify(args,expr,modules=modules)
    ou.lambdify=fl
    m2=mk()
    try:
        print(level, m2.ode(x,0.), m2.jacobian(x,0.).shape, np.allclose(m2.jacobian(x,0.),J), m2.vMat(x,0.).dtype, m2.eventRateVector(x,0.))
    except Exception as e: print(level,"EXC",type(e).__name__,e); traceback.print_exc(limit=3)
ou.lambdify=real_lambdify

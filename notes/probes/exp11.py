import warnings; warnings.filterwarnings("ignore")
import numpy as np, types
from pygom import SimulateOde, Transition, Event
from pygom.model import ode_utils
import pygom.model.stochastic_simulation as ss
import pygom.model.ode_utils as ou
import scipy, scipy.integrate, scipy.sparse
# --- R seam: transparent recorder
trace=[]
real_rexp, real_rpois = ss.rexp, ss.rpois
def rec_rexp(n, rate=1.0, seed=None):
    v=real_rexp(n, rate, seed=seed); trace.append(('e',float(rate),float(v))); return v
def rec_rpois(n, mu=1.0, seed=None):
    v=real_rpois(n, mu, seed=seed); trace.append(('p',float(mu),int(v))); return v
ss.rexp, ss.rpois = rec_rexp, rec_rpois
m = SimulateOde([('S',(0,None)),('I',(0,12)),('R',(0,None))], ['beta','gamma','N'], event=[
    Event(rate='beta*S*I/N', transition_list=[Transition(origin='S', destination='I', transition_type='T')]),
    Event(rate='gamma*I', transition_list=[Transition(origin='I', destination='R', transition_type='T')])])
m._SC = ode_utils.compileCode(backend='lambda'); m.parameters=[2.5,.1,30.]; m.initial_values=([25.,5.,0.],np.float64(0))
np.random.seed(4); X,J,T=m.solve_stochast(50.,1,exact=True,full_output=True)
print("exact steps",len(T[0])-1,"draws",len(trace),"maxI",X[0][:,1].max(),"lastT",T[0][-1], "last x", X[0][-1])
trace.clear(); m.pre_tau=0.5
np.random.seed(4); X,J,T=m.solve_stochast(50.,1,exact=False,full_output=True)
kinds=''.join(k for k,_,_ in trace); print("tau steps",len(T[0])-1,"pois",kinds.count('p'),"exp",kinds.count('e'),"maxI",X[0][:,1].max(),"min",X[0].min(),"lastT",T[0][-1])
# --- scripted source
script=iter([1e-9,0.999999,0.5,0.5,0.5,0.5]*50)
def scr_rexp(n, rate=1.0, seed=None): u=next(script); return -np.log1p(-u)/rate
ss.rexp=scr_rexp
X,J,T=m.solve_stochast(5.,1,exact=True,full_output=True); print("scripted", T[0][:4], X[0][:4].tolist())
ss.rexp, ss.rpois = real_rexp, real_rpois
# --- I seam shim
calls=[]
class SimOde:
    policy='reuse'
    def __init__(self,f,jac=None): self._r=scipy.integrate.ode(f,jac); self._buf=None
    def set_integrator(self,name,**kw): calls.append((name,kw.get('method'))); self._r.set_integrator(name,**kw); return self
    def set_f_params(self,*a): self._r.set_f_params(*a); return self
    def set_jac_params(self,*a): self._r.set_jac_params(*a); return self
    def set_initial_value(self,y,t=0.0): self._r.set_initial_value(y,t); self._buf=np.array(self._r.y,float); return self
    def integrate(self,t,**kw):
        y=self._r.integrate(t,**kw)
        if self.policy=='reuse': self._buf[...]=y; return self._buf
        return np.array(y)
    def successful(self): return self._r.successful()
    @property
    def t(self): return self._r.t
    @property
    def y(self): return self._buf if self.policy=='reuse' else np.array(self._r.y)
shim=types.SimpleNamespace(integrate=types.SimpleNamespace(ode=SimOde, odeint=scipy.integrate.odeint), sparse=scipy.sparse)
ou.scipy=shim
for pol in ['reuse','fresh']:
    SimOde.policy=pol
    for meth in ['dopri5','vode','lsoda']:
        s=ou.integrateFuncJac(m.ode_T,m.jacobian_T,np.array([25.,5.,0.]),0.,[1.,2.,3.],method=meth)
        print(pol,meth,s[:,1])
print(calls[:3])

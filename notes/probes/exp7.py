import warnings; warnings.filterwarnings("ignore")
import numpy as np, traceback, time
from pygom import SimulateOde, Transition, Event
from pygom.model import ode_utils
import sympy
def mk(backend):
    m = SimulateOde(state=['A','B'], param=['k','c','d'], event=[
        Event(rate='k*A*B/(1+A)', transition_list=[Transition(origin='A',destination='B',transition_type='T',magnitude='2')]),
        Event(rate='c*exp(-B)', transition_list=[Transition(destination='A',transition_type='B')]),
        Event(rate='d*B', transition_list=[Transition(origin='B',transition_type='D'),Transition(origin='A',transition_type='D',magnitude='d')]),
    ]); m._SC = ode_utils.compileCode(backend=backend); m.parameters=[.5,2.,.3]; return m
x=[3.,2.]
for be in ['lambda','cython']:
    m=mk(be); t0=time.time()
    for name in ['ode','jacobian','grad','diff_jacobian','grad_jacobian','vMat','eventRateVector','transitionJacobian','transitionMean','transitionVar','pureOdeVector']:
        try:
            r=getattr(m,name)(x,0.)
            print(be,name,type(r).__name__,getattr(r,'shape',None),np.round(np.asarray(r,float).ravel()[:8],4))
        except Exception as e: print(be,name,"EXC",type(e).__name__,str(e)[:100])
    print(be,"time",time.time()-t0, "isDifficult", m._isDifficult)
# try f2py
try:
    from sympy.utilities.autowrap import autowrap
    xx=sympy.Symbol('x'); f=autowrap(sympy.sin(xx)/xx,args=[xx],backend='f2py'); print("f2py ok",f(1.0))
except Exception as e: print("f2py FAIL",type(e).__name__,str(e)[:200])

import warnings; warnings.filterwarnings("ignore")
import numpy as np, traceback
from pygom import common_models
from pygom.model import ode_utils
m = common_models.Lotka_Volterra({'alpha':1.,'delta':.5,'beta':.4,'gamma':.6}) if True else None
m._SC = ode_utils.compileCode(backend='lambda')
print(m.param_list, m.state_list)
x0=[2.,1.]; m.initial_values=(x0,np.float64(0))
print(np.linalg.eig(m.jacobian(x0,0))[0])
t=np.linspace(0.5,5,10)
for meth in [None,'lsoda','vode','dopri5']:
    try:
        s=m.integrate2(t,method=meth); print(meth, s[-1])
    except Exception as e: print(meth,"EXC",type(e).__name__,e)
print(m.integrate(t)[-1])

"""C08 -- evaluators never go stale after a model is modified (engine: session; histories)."""
from .. import core, gen
from ..engines import session
from . import _session_common as sc

PROP = "C08"
BUDGET = {"quick": 900, "thorough": 25000}
ALARM_S = 900
RULE = ("seeded histories of up to 12 operations (22 in the thorough tier) mixing mutators (add event / transition / birth-death through every "
        "add_* route, add explicit ODE term, add parameter (+ its value), add derived parameter, change parameter values "
        "by full list or partial dict) with observations of a random subset of the 11 compiled evaluators in random order, "
        "K-seam faults on every recompile, and with a second live model in the same process (another client's never-modified "
        "model, or the fresh model itself) evaluated between a modification and the observation (H.interleave_other_model); "
        "oracle = a freshly constructed model with the same final definition, and the bystander keeps its reference values; "
        "non-trivial = at least one evaluator was observed, then the model was mutated, then the same evaluator was "
        "observed again; distinct = distinct case digests")
MEASURE = "distinct (11-bit compiled-and-fresh evaluator mask before the op, op kind) pairs"
COMPONENTS = sc.COMPONENTS
ASSUMPTIONS = ["states are not added after construction (not among the listed modifications)",
               "'add a parameter' is followed by an assignment of its value before the next observation",
               "event evaluators are not observed while the model has no event",
               "the fresh model is built through the constructor's event list in the live event order with lambdify back-end; "
               "agreement is required to rtol 1e-9"]


def gen_history(rng, model, names, params, tier):
    ops = []
    cur_params = list(params)
    derived = [d[0] for d in model.get("derived", [])]
    nproc = len(model["processes"])
    length = rng.randint(3, 12) if tier != "thorough" else rng.randint(3, 22)
    extra_names = ["zeta", "omega", "tau1", "phi", "chi"]
    extra_derived = ["dz", "dw", "dv"]
    pending_value = None
    for _ in range(length):
        r = rng.random()
        if r < 0.45 or pending_value:
            if pending_value:
                # give the new parameter a value before anything is observed
                ops.append({"op": "set_params", "fmt": "dict", "values": [[pending_value, round(rng.uniform(0.05, 3.0), 4)]]})
                pending_value = None
                continue
            k = rng.choice([0, 1, 1, 2, 3, 5, 11])
            evs = rng.sample(sc.ALL_EVALS, min(k, len(sc.ALL_EVALS)))
            if not evs:
                continue
            x, t, _ = gen.gen_point(rng, names, [])
            ops.append({"op": "eval", "names": evs, "x": x, "t": t, "against": "fresh", "fresh_first": rng.random() < 0.4})
            continue
        if r < 0.53:
            # another client's model is evaluated in between (two live models in one process)
            ops.append({"op": "bystander", "names": rng.sample(sc.ALL_EVALS, rng.choice([1, 2, 4, 11]))})
            continue
        use = cur_params + derived
        m = rng.random()
        if m < 0.35:
            ev = gen.gen_event(rng, names, use, stochastic=False, symbolic_mag=True)
            route = gen.choose_route(rng, ev, allow_add=False)
            ops.append({"op": "add_process", "proc": ev, "route": "add_" + route})
            nproc += 1
        elif m < 0.5:
            s = rng.choice(names)
            eq = rng.choice(["-%s*%s" % (rng.choice(use), s), "0.07*%s" % rng.choice(names),
                             "%s*exp(-%s)" % (rng.choice(use), s), "-0.3"])
            ops.append({"op": "add_ode", "state": s, "eq": eq})
        elif m < 0.65 and extra_names:
            nm = extra_names.pop(0)
            ops.append({"op": "add_param", "name": nm})
            cur_params.append(nm)
            pending_value = nm
        elif m < 0.75 and extra_derived:
            dn = extra_derived.pop(0)
            a, b = rng.choice(cur_params), rng.choice(cur_params)
            ops.append({"op": "add_derived", "name": dn, "eq": rng.choice(["%s*%s" % (a, b), "%s/(1+%s)" % (a, b), "2*%s" % a])})
            derived.append(dn)
        else:
            if rng.random() < 0.5:
                vals = [[nm, round(rng.uniform(0.05, 3.0), 4)] for nm in cur_params]
                ops.append({"op": "set_params", "fmt": rng.choice(["list", "array", "pairs"]), "values": vals})
            else:
                sub = rng.sample(cur_params, rng.randint(1, len(cur_params)))
                ops.append({"op": "set_params", "fmt": "dict", "values": [[nm, round(rng.uniform(0.05, 3.0), 4)] for nm in sub]})
    if pending_value:
        ops.append({"op": "set_params", "fmt": "dict", "values": [[pending_value, round(rng.uniform(0.05, 3.0), 4)]]})
    # always end by observing everything
    x, t, _ = gen.gen_point(rng, names, [])
    evs = list(sc.ALL_EVALS)
    rng.shuffle(evs)
    ops.append({"op": "eval", "names": evs, "x": x, "t": t, "against": "fresh", "fresh_first": rng.random() < 0.4})
    return ops


def generate(seed, tier):
    S = core.Streams(seed)
    rng = S("gen")
    model, names, params = gen.gen_model(rng, stochastic=False, p=rng.randint(1, 4), m=rng.randint(0, 3))
    # constructor routes only: the history does the adding
    for pr in model["processes"]:
        if pr["route"].startswith("add_"):
            pr["route"] = pr["route"][4:]
    kenv, batch = sc.k_plan(S("faults"), tier)
    theta = [round(rng.uniform(0.05, 3.0), 4) for _ in params]
    ops = gen_history(S("sched"), model, names, params, tier)
    return {"engine": "session", "model": model, "env": {"K": kenv}, "theta": theta, "ops": ops, "batch": batch}


def nontrivial(case):
    seen = set()
    mutated_after = set()
    for op in case["ops"]:
        if op["op"] == "eval":
            for nm in op["names"]:
                if nm in mutated_after:
                    return True
            seen.update(op["names"])
        else:
            mutated_after.update(seen)
    return False


def execute(case):
    res = session.execute(case, PROP, eval_against="fresh")
    res["nontrivial"] = nontrivial(case)
    return res


reductions = session.reductions

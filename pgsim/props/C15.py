"""C15 -- gridded stochastic output agrees with the underlying path (engine: jump)."""
from .. import core
from ..engines import jump

PROP = "C15"
BUDGET = {"quick": 2000, "thorough": 40000}
ALARM_S = 900
RULE = ("seeded random event models x grids (uniform / non-uniform, array / list / tuple, starting at t0 or later, some "
        "extending past extinction; in half of the exact runs extra requested times are placed 1e-5 .. 3e-12 (relative) before or after actual event times of the underlying path: fault G.near_event) x {exact, tau} x R seam; the identical stream is run once with a scalar horizon (the "
        "underlying paths) and once gridded; non-trivial = an exact-mode gridded run whose underlying paths fired >= 3 "
        "events in total; distinct = distinct case digests")
MEASURE = "distinct (grid length, grid type, starts at t0, algorithm, R mode) tuples"
COMPONENTS = {"real": ["pygom.model.simulate.SimulateOde.solve_stochast, _extractObservationAtTime, _addJumpsBetweenTime, "
                       "_interpolateObservationAtTime", "pygom.model.stochastic_simulation"],
              "stub": ["R seam (re-seeded to replay the identical stream raw and gridded)", "K seam"]}
ASSUMPTIONS = ["intervals with an event within 1e-12 of a grid point are skipped (probability-zero boundary)",
               "'first row is the initial state' is only checked when the first requested time is t0",
               "the raw run and the gridded run consume the same number of draws; otherwise no verdict (counted)"]
KEEP = ("C15.",)


def generate(seed, tier):
    S = core.Streams(seed)
    rng = S("c15")
    force = {"grid": "only", "exact": rng.random() < 0.8}
    case = jump.gen_case(S, tier, PROP, force)
    if any(op.get("adv") for op in case["ops"]):
        case["batch"] = "fault_injecting"
    return case


def execute(case):
    res = jump.execute(case, keep_prefix=KEEP)
    op = case["ops"][0]
    res["nontrivial"] = bool(op.get("exact") and res["stats"].get("grid_runs_checked") and res["stats"].get("events", 0) >= 3)
    res["measure"] = [[len(op["grid"]), op.get("gtype"), op["grid"][0] == case["t0"], bool(op.get("exact")), case["env"]["R"]["mode"]]]
    return res


reductions = jump.reductions

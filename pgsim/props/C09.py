"""C09 -- parameter values are bound to the parameters they were given for (engine: session;
assignment histories with rejected operations as faults)."""
from .. import core, gen
from ..engines import session
from . import _session_common as sc

PROP = "C09"
BUDGET = {"quick": 2400, "thorough": 50000}
ALARM_S = 900
RULE = ("seeded sequences of 1-8 assignments in mixed formats (list, tuple, ndarray, permuted (name,value) pairs, dict by "
        "name, dict keyed per entry by name / the model's own symbol / a sympy.Symbol made by the caller with no or other assumptions, partial dict) with must-reject operations (a name that is not a parameter - arbitrary, the reserved time symbol 't', a state name, a near miss - in dict/pairs, "
        "short/long list, oversized dict) anywhere in the sequence; after every assignment ode and grad are evaluated and "
        "compared with the reference under RefParams; non-trivial = the sequence contains a permuted pairs form, a partial "
        "update or a rejected operation followed by further operations; distinct = distinct case digests")
MEASURE = "distinct (compiled-evaluator bitmask before the op, op kind) pairs"
COMPONENTS = sc.COMPONENTS
ASSUMPTIONS = ["any exception type counts as rejection",
               "after a rejected dict update, names it mentioned may hold the old or the rejected value until assigned again "
               "(PyGOM mutates its stored map in place before it reaches the bad key); no other relaxation"]


def _kinds(rng, k):
    """Key kind per dict entry: the name, the model's own symbol, or a Symbol made by the caller."""
    return [rng.choice(["name", "name", "sym", "fsym", "fsym", "fsym_pos"]) for _ in range(k)]


def gen_assign(rng, params, allow_reject=True, states=()):
    p = len(params)
    # names that are not parameters: an arbitrary one, the reserved time symbol, a state name, near misses
    bad = rng.choice(["nosuchparam", "nosuchparam", "t", "t", (states[0] if states else "nosuchparam"),
                      params[0] + "x", (params[0].upper() if params[0].upper() not in params else "nosuchparam")])
    val = lambda: rng.choice([round(rng.uniform(0.05, 3.0), 4), rng.randint(1, 3)])
    fmts = ["list", "tuple", "array", "pairs", "pairs", "dict", "dict_sym", "partial", "partial"]
    # the bare-scalar form for p == 1 is not among the accepted forms the property lists (and raises
    # TypeError: unhashable ODEVariable on the pinned tree): observation only, not generated
    fmt = rng.choice(fmts)
    reject = None
    if allow_reject and rng.random() < 0.22:
        reject = rng.choice(["unknown_name_dict", "unknown_name_pairs", "short", "long", "toobig_dict", "matrix"])
    if reject == "unknown_name_dict":
        names = rng.sample(params, rng.randint(1, p))
        vals = [[nm, val()] for nm in names]
        vals.insert(rng.randint(0, len(vals)), [bad, val()])
        if len(vals) > p:
            vals = vals[:p] if any(v[0] == bad for v in vals[:p]) else [[bad, val()]] + vals[:p - 1]
        return {"op": "set_params", "fmt": "dict_mix", "kinds": [rng.choice(["name", "name", "fsym"]) for _ in vals],
                "values": vals, "reject": "unknown_name"}
    if reject == "unknown_name_pairs":
        names = list(params)
        rng.shuffle(names)
        vals = [[nm, val()] for nm in names]
        vals[rng.randrange(p)][0] = bad
        return {"op": "set_params", "fmt": "pairs", "values": vals, "reject": "unknown_name"}
    if reject == "short" and p >= 2:
        vals = [[nm, val()] for nm in params[:-1]]
        return {"op": "set_params", "fmt": rng.choice(["list", "tuple", "array"]), "values": vals, "reject": "wrong_length"}
    if reject == "long":
        vals = [[nm, val()] for nm in params] + [["extra", val()]]
        return {"op": "set_params", "fmt": rng.choice(["list", "tuple", "array"]), "values": vals, "reject": "wrong_length"}
    if reject == "matrix":
        # a two-dimensional array with one row per parameter but more than one column: the right length, the wrong size
        vals = [[nm, float(val())] for nm in params]
        return {"op": "set_params", "fmt": "array2d", "values": vals, "cols": rng.choice([2, 2, 3]), "reject": "wrong_length"}
    if reject == "toobig_dict":
        vals = [[nm, val()] for nm in params] + [["nosuchparam", val()]]
        return {"op": "set_params", "fmt": "dict", "values": vals, "reject": "too_many"}
    if fmt in ("list", "tuple", "array"):
        return {"op": "set_params", "fmt": fmt, "values": [[nm, float(val()) if fmt == "array" else val()] for nm in params]}
    if fmt == "pairs":
        names = list(params)
        rng.shuffle(names)
        return {"op": "set_params", "fmt": "pairs", "values": [[nm, val()] for nm in names]}
    if fmt in ("dict", "dict_sym"):
        names = list(params)
        rng.shuffle(names)
        if fmt == "dict_sym":
            return {"op": "set_params", "fmt": "dict_mix", "kinds": _kinds(rng, len(names)), "values": [[nm, val()] for nm in names]}
        return {"op": "set_params", "fmt": fmt, "values": [[nm, val()] for nm in names]}
    if fmt == "partial":
        names = rng.sample(params, rng.randint(1, max(1, p - 1)))
        if rng.random() < 0.6:
            return {"op": "set_params", "fmt": "dict_mix", "kinds": _kinds(rng, len(names)), "values": [[nm, val()] for nm in names]}
        return {"op": "set_params", "fmt": "dict", "values": [[nm, val()] for nm in names]}
    if fmt == "scalar":
        return {"op": "set_params", "fmt": "scalar", "values": [[params[0], val()]]}
    raise core.HarnessError(fmt)


def generate(seed, tier):
    S = core.Streams(seed)
    rng = S("gen")
    p = rng.choice([1, 2, 2, 3, 3, 4, 5])
    model, names, params = gen.gen_model(rng, stochastic=False, p=p, m=rng.randint(1, 4))
    kenv, batch = sc.k_plan(S("faults"), tier)
    theta = [round(rng.uniform(0.05, 3.0), 4) for _ in params]
    srng = S("sched")
    ops = []
    nrej = 0
    for _ in range(srng.randint(1, 8) if tier != "thorough" else srng.randint(1, 14)):
        a = gen_assign(srng, params, states=names)
        ops.append(a)
        nrej += 1 if a.get("reject") else 0
        x, t, _ = gen.gen_point(srng, names, [])
        more = srng.sample(["jacobian", "diff_jacobian", "grad_jacobian", "eventRateVector", "transitionJacobian", "transitionMean",
                            "transitionVar", "pureOdeVector"], srng.choice([0, 1, 2]))
        ops.append({"op": "eval", "names": ["ode", "grad"] + more, "x": x, "t": t})
    if nrej:
        batch = "fault_injecting"
    elif batch == "fault_injecting" and "backend" in kenv:
        batch = "fault_free"
    return {"engine": "session", "model": model, "env": {"K": kenv}, "theta": theta, "ops": ops, "batch": batch}


def nontrivial(case):
    params = None
    ops = case["ops"]
    for i, op in enumerate(ops):
        if op["op"] != "set_params":
            continue
        if op.get("reject") and i < len(ops) - 2:
            return True
        names = [v[0] for v in op["values"]]
        if op["fmt"] == "pairs" and names != sorted(names, key=lambda n: case["model"]["params"].index(n) if n in case["model"]["params"] else -1):
            return True
        if op["fmt"].startswith("dict") and len(names) < len(case["model"]["params"]):
            return True
    return False


def execute(case):
    res = session.execute(case, PROP)
    res["nontrivial"] = nontrivial(case)
    rej = res["stats"].get("rejected_ops", 0)
    if rej:
        res["faults"]["H.rejected_op"] = rej
    return res


reductions = session.reductions

"""C18 -- fit stays inside the box and never returns something worse than its start (engine: solver)."""
from .. import core
from ..build import insertion_order
from ..engines import solver
from ..refmodel import RefModel

PROP = "C18"
BUDGET = {"quick": 480, "thorough": 8000}
ALARM_S = 600
RULE = ("catalogue models x generating parameters x noise-free or perturbed data x loss class (all five for the box and "
        "descent clauses; Square and Normal on noise-free data for the 'started at the truth' clause) x box bounds x start "
        "uniformly inside the box (or at the truth) x I-seam policy; the owner client scrambles the shared model's "
        "parameters before fit is called; non-trivial = the optimiser moved away from its start; distinct = distinct case digests")
MEASURE = "distinct (model, loss class, number of free variables, started at truth, I policy) tuples"
COMPONENTS = {"real": ["pygom.loss.BaseLoss.fit, cost, sensitivity", "scipy.optimize.minimize (L-BFGS-B)", "scipy.integrate.ode"],
              "stub": ["I seam (buffer policy)", "backend='lambda'"]}
ASSUMPTIONS = ["cost(x_hat) <= cost(x_start) + 1e-9|cost(x_start)| + 1e-12 with both costs evaluated by PyGOM (C06 pins cost to the reference)",
               "'returns those parameters' = within 1e-6 (1+|theta*|)"]
KEEP = ("C18.",)


def generate(seed, tier):
    S = core.Streams(seed)
    rng = S("gen")
    for _ in range(100):
        at_truth = rng.random() < 0.3
        hard = (not at_truth) and rng.random() < 0.4
        name, model, theta, x0, t0, tmax, box, pos = solver.pick_problem(
            rng, random_frac=0.0, only=["SIR", "SIS", "SEIR", "SIR_N", "SIR_C", "SIR_C"] if hard else None)
        ref = RefModel(model, insertion_order(model))
        classes = ["SquareLoss", "NormalLoss"] if at_truth else None
        if hard:
            # badly conditioned fits (count / gamma likelihoods on small-valued trajectories, wide boxes, starts
            # near the faces of the box): the optimiser's line search is likely to terminate abnormally
            classes = ["GammaLoss", "GammaLoss", "NegBinomLoss", "PoissonLoss"]
            box = [[th / 3.0, th * 3.0] for th in theta]
        d = solver.gen_loss_def(rng, "L1", ref, name, theta, x0, t0, tmax if hard else min(tmax, 15.0), box, pos, classes=classes,
                                min_yhat=1e-8 if hard else 1e-3,
                                allow_targets=rng.random() < 0.3, allow_weights=True,
                                force_noise_free=True if (at_truth or hard) else None,
                                force_states=["I"] if hard else None)
        if d is None:
            continue
        d.pop("target_state", None)
        d["prop"] = PROP
        names = ref.param_names if d.get("target_param") is None else d["target_param"]
        bidx = [ref.param_names.index(nm) for nm in names]
        lb = [box[i][0] for i in bidx]
        ub = [box[i][1] for i in bidx]
        if at_truth:
            if rng.random() < 0.3 and ref.p >= 2:
                # every parameter is targeted, in an order that is not the model's
                perm = list(ref.param_names)
                while perm == list(ref.param_names):
                    rng.shuffle(perm)
                d["target_param"] = perm
                names, bidx = perm, [ref.param_names.index(nm) for nm in perm]
                lb = [box[i][0] for i in bidx]
                ub = [box[i][1] for i in bidx]
                d["theta0"] = [solver.rand_in_box(rng, box[i]) for i in bidx]
            elif d.get("target_param") is not None:
                d.pop("target_param")
                names, bidx = ref.param_names, list(range(ref.p))
                lb = [box[i][0] for i in bidx]
                ub = [box[i][1] for i in bidx]
                d["theta0"] = [solver.rand_in_box(rng, box[i]) for i in bidx]
            start = [theta[i] for i in bidx]
        else:
            start = [round(rng.uniform(l + 0.02 * (u - l), u - 0.02 * (u - l)), 4) for l, u in zip(lb, ub)]
            if hard and rng.random() < 0.5:
                start = [round(l + (u - l) * rng.choice([0.03, 0.08, 0.92, 0.97]), 4) for l, u in zip(lb, ub)]
        lb, ub, start = list(lb), list(ub), list(start)
        if not at_truth and rng.random() < 0.3:
            # bounds that are active at the constrained optimum: one face of the box excludes the generating value,
            # and another parameter may be bounded below by exactly 0 where the model tolerates that
            j = rng.randrange(len(lb))
            tj = theta[bidx[j]]
            if rng.random() < 0.5:
                ub[j] = round(tj * rng.uniform(0.4, 0.8), 4)
                lb[j] = min(lb[j], round(ub[j] * 0.3, 4))
            else:
                lb[j] = round(tj * rng.uniform(1.3, 2.0), 4)
                ub[j] = max(ub[j], round(lb[j] * 2.0, 4))
            for k_ in range(len(lb)):
                th0 = list(theta)
                th0[bidx[k_]] = 0.0
                if rng.random() < 0.6 and solver.safe_reference(ref, th0, x0, t0, d["obs_t"]) is not None:
                    lb[k_] = 0.0
            start = [round(rng.uniform(l + 0.05 * (u - l), u - 0.05 * (u - l)), 4) for l, u in zip(lb, ub)]
        if at_truth and rng.random() < 0.3:
            # whole-number lower bounds (0 or 1 below the value) with fractional upper bounds just above the generating
            # values: the kind of box whose two sides have different number types
            import math as _m
            lb = [float(_m.floor(v)) if rng.random() < 0.5 else 0.0 for v in start]
            ub = [round(v * rng.uniform(1.1, 1.6) + 0.013, 4) for v in start]
        if hard and rng.random() < 0.4:
            # lower bounds of exactly 0 on every parameter that tolerates it, start near the upper faces: the first
            # trial step of the search tends to land on the corner, where a gamma / count likelihood of a (numerically)
            # zero prediction is undefined
            for k_ in range(len(lb)):
                th0 = list(theta)
                th0[bidx[k_]] = 0.0
                if solver.safe_reference(ref, th0, x0, t0, d["obs_t"]) is not None:
                    lb[k_] = 0.0
            start = [round(l + (u - l) * rng.choice([0.6, 0.92, 0.97, 1.0]), 4) for l, u in zip(lb, ub)]
        if rng.random() < 0.25:
            # a start (or the generating value itself) exactly on a face of the box
            j = rng.randrange(len(lb))
            if at_truth:
                if rng.random() < 0.5:
                    lb[j] = start[j]
                else:
                    ub[j] = start[j]
            else:
                start[j] = lb[j] if rng.random() < 0.5 else ub[j]
        env, batch = solver.env_for(S, tier)
        ops = [d]
        if rng.random() < 0.6:
            ops.append(solver.gen_owner_op(rng, ref, d, box, x0, t0, min(tmax, 10.0)))
            batch = "fault_injecting"
        ops.append({"op": "fit", "id": "L1", "start": start, "lb": lb, "ub": ub, "at_truth": at_truth,
                    "truth": [theta[i] for i in bidx], "plain_output": rng.random() < 0.5,
                    "bounds_as": rng.choice(["int_where_whole", "int_where_whole", "array", "list"])
                    if all(float(v) == int(v) for v in lb) else rng.choice(["array", "array", "list", "int_where_whole", "tuple"])})
        return {"engine": "solver", "problem": name, "model": model, "theta": theta, "x0": x0, "t0": t0, "env": env,
                "ops": ops, "batch": batch, "box": box}
    raise core.HarnessError("no C18 case")


def execute(case):
    res = solver.execute(case, keep_prefix=KEEP)
    res["nontrivial"] = bool(res["stats"].get("fits_moved", 0))
    d = [op for op in case["ops"] if op["op"] == "loss_new"][0]
    f = [op for op in case["ops"] if op["op"] == "fit"][0]
    res["measure"] = [[case["problem"], d["cls"], len(f["start"]), bool(f.get("at_truth")), case["env"]["I"]]]
    return res


reductions = solver.reductions

"""C06 -- cost is the stated loss of the model trajectory against the data (engine: solver)."""
from .. import core
from ..engines import solver

PROP = "C06"
BUDGET = {"quick": 2400, "thorough": 50000}
ALARM_S = 300
RULE = ("catalogue and bounded random models x theta x observation grid (3-12 points, mostly non-uniform) x 1-3 observed "
        "states in any order x five loss classes with scalar / per-observation spread x weights (non-unit for Square/Normal) "
        "x target_param subsets in any order x target_state subsets; one or two loss objects and the model owner interleaved "
        "on one shared model (owner overwrites parameters, integrates, evaluates between the loss calls) x I-seam buffer "
        "policy; cost, residual and costIV compared with the reference loss of the reference trajectory; non-trivial = >= 2 "
        "cost-type calls with different arguments, or an owner operation between loss calls; distinct = distinct case digests")
MEASURE = "distinct (loss class, #observed states, observed states in model order?, weights kind, spread kind, targets?, I policy, op-kind sequence) tuples"
COMPONENTS = {"real": ["pygom.loss (BaseLoss, ode_loss, loss_type)", "pygom.model.ode_utils.integrateFuncJac", "scipy.integrate.ode (lsoda)"],
              "stub": ["I seam (buffer policy)", "K seam / backend='lambda'"]}
ASSUMPTIONS = ["non-target parameters of a subset loss are whatever the shared model currently holds (tracked by the harness)",
               "tolerance 1e-6(1+|cost|) plus the first-order effect of a 2e-6(1+|yhat|) trajectory error on the reference loss",
               "count and gamma losses only on trajectories with yhat > 1e-3"]
KEEP = ("C06.",)


def generate(seed, tier):
    S = core.Streams(seed)
    return solver.gen_loss_case(S, tier, PROP, ["cost", "cost", "cost", "costIV", "residual"])


def describe(case):
    out = []
    kinds = [op["op"] + ":" + str(op.get("what", op.get("kind", ""))) for op in case["ops"] if op["op"] != "loss_new"]
    order = [s["name"] for s in case["model"]["states"]]
    for op in case["ops"]:
        if op["op"] == "loss_new":
            idx = [order.index(s) if s in order else -1 for s in op["states"]]
            out.append([op["cls"], len(op["states"]), idx == sorted(idx),
                        type(op.get("weights")).__name__, type(op.get("spread")).__name__,
                        bool(op.get("target_param")), bool(op.get("target_state")), case["env"]["I"], kinds[:6]])
    return out


def execute(case):
    res = solver.execute(case, keep_prefix=KEEP)
    calls = [op for op in case["ops"] if op["op"] == "cost"]
    owners = [op for op in case["ops"] if op["op"] == "owner"]
    res["nontrivial"] = bool(res["stats"].get("cost_calls", 0) >= 2 or (owners and res["stats"].get("cost_calls", 0) >= 1))
    res["measure"] = describe(case)
    return res


reductions = solver.reductions

"""C05 -- exact stochastic simulation samples the continuous-time Markov chain's law.
Engine jump, NATURAL stream only (adversarial draws are never used here).  Three layers, every
acceptance region exact (binomial quantiles) or a rigorous tail bound (Azuma-Hoeffding); the total
false-alarm probability of one run of the check is bounded by ALPHA = 1e-8 (Bonferroni)."""
import copy
import math

import numpy as np
import scipy.linalg
import scipy.stats

from .. import core, gen
from ..engines import jump
from ..refmodel import RefModel

PROP = "C05"
GENERATE_WITH_INDEX = True
ALPHA = 1e-8
NBINS = 20
CHUNKS = {"quick": 16, "thorough": 160}          # chunks of PATHS paths per closed-form configuration
POOL_RUNS = {"quick": 160, "thorough": 2400}     # runs of the random-model pool
PATHS = 100
NCONF = 7                                        # 3 chains + 3 SIR + 1 random pool
BUDGET = {t: 6 * CHUNKS[t] + POOL_RUNS[t] for t in CHUNKS}
ALARM_S = 1800
RULE = ("natural random stream only.  Six closed-form configurations derived from VERIF_SEED (3 independent linear progression "
        "chains with 2-4 stages, N in 50..400, per-capita rates spread over 3 decades; 3 SIR models with N in 20..60) each "
        "simulated in chunks of 100 exact paths, plus a pool of seeded random time-homogeneous event models.  Per "
        "configuration: (1) PIT of every recorded exponential clock in 20 bins, (2) PIT of holding times against the total "
        "reference rate in 20 bins and Azuma-Hoeffding bound on sum(1{event j fired} - a_j/a_0) per event slot, (3) exact "
        "binomial regions for pooled chain occupancy at time t against expm(Qt), for the distribution over paths of each stage's occupancy (Binomial(N, p) per path, groups of probability >= 0.1) and for SIR final size against the "
        "embedded-jump-chain pmf (every other path observed through gridded output instead of the raw path); per-step refinement of the first-reaction method on every path.  non-trivial = a run that "
        "simulated >= 50 exact steps; distinct = distinct case digests")
MEASURE = "distinct (configuration kind, population, number of events) tuples"
COMPONENTS = {"real": ["pygom SimulateOde.solve_stochast(exact=True)", "stochastic_simulation.firstReaction/_newJumpTimes",
                       "pygom.utilR.distn.rexp", "numpy global generator (seeded per run)"],
              "stub": ["R seam in recording mode (transparent wrapper, consumes no randomness)"]}
ASSUMPTIONS = ["time-homogeneous rates (PyGOM freezes rates at the start of a step)",
               "false-alarm budget: %g per run of the check, split evenly over all tests performed (Bonferroni); binomial regions "
               "are exact quantiles, the choice test uses the Azuma-Hoeffding bound" % ALPHA,
               "with a fixed VERIF_SEED the outcome is deterministic"]
KEEP = ("C05.",)


# ---------------------------------------------------------------------------------------------------
def configs(base=None):
    import random
    base = core.verif_seed() if base is None else base
    rng = random.Random(core.run_seed(PROP, "configs", 0, base))
    out = []
    for c in range(3):
        k = 2 + c
        rates = [round(10 ** rng.uniform(-1.5, 1.5), 4) for _ in range(k - 1)]
        N = rng.choice([50, 100, 200, 400])
        states = ["A%d" % (i + 1) for i in range(k)]
        model = {"states": [{"name": s} for s in states], "params": ["r%d" % (i + 1) for i in range(k - 1)], "state_decl": "list",
                 "processes": [{"rate": "r%d*%s" % (i + 1, states[i]), "route": "event",
                                "trans": [{"type": "T", "o": states[i], "d": states[i + 1], "mag": "1"}]} for i in range(k - 1)]}
        t = round(rng.uniform(0.4, 1.5) / (sum(rates) / len(rates)), 6)
        if c >= 1:
            # declared limits that can never bind (a stage holds between 0 and N individuals): the law is unchanged
            for s_ in model["states"][1:]:
                s_["lim"] = [0, N]
        out.append({"id": "chain%d" % k, "kind": "chain", "model": model, "theta": rates, "x0": [N] + [0] * (k - 1), "t": t, "N": N,
                    "t0": [0.0, 1.5, 2.25][c]})        # the law depends on elapsed time only: some runs start later
    for c in range(3):
        N = rng.choice([20, 30, 40, 60])
        i0 = rng.choice([1, 2, 3])
        beta = round(rng.uniform(0.8, 3.0), 4)
        gamma = round(rng.uniform(0.5, 1.5), 4)
        model = {"states": [{"name": "S"}, {"name": "I"}, {"name": "R"}], "params": ["beta", "gamma"],
                 "processes": [{"rate": "beta*S*I/%d" % N, "route": "event", "trans": [{"type": "T", "o": "S", "d": "I", "mag": "1"}]},
                               {"rate": "gamma*I", "route": "event", "trans": [{"type": "T", "o": "I", "d": "R", "mag": "1"}]}]}
        if c >= 1:
            model["state_decl"] = "list"
            model["states"][2]["lim"] = [0, N]
            model["states"][1]["lim"] = [0, N]
        out.append({"id": "sir%d" % c, "kind": "sir", "model": model, "theta": [beta, gamma], "x0": [N - i0, i0, 0], "N": N, "i0": i0,
                    "t0": [0.0, 0.0, 3.0][c]})
    out.append({"id": "pool", "kind": "pool"})
    return out


def generate(seed, tier, index):
    cfgs = configs()
    nchunk = CHUNKS[tier]
    if index < 6 * nchunk:
        cfg = cfgs[index // nchunk]
        return {"engine": "law", "config": cfg, "chunk_seed": seed, "paths": PATHS, "batch": "fault_free"}
    # pool: one random time-homogeneous event model per run
    S = core.Streams(seed)
    rng = S("gen")
    base = jump.gen_case(S, tier, PROP, {"scripted": False, "exact": True, "single": True, "limits": rng.random() < 0.3})
    for pr in base["model"]["processes"]:
        if "cos(" in pr["rate"]:
            pr["rate"] = pr["rate"].replace("(1+0.5*cos(2*t))", "1.0")
    for d in base["model"].get("derived", []):
        d[1] = d[1].replace("(1+0.5*cos(2*t))", "1.0")
    # rates spread over decades
    sc = 10 ** rng.uniform(-1.0, 1.0)
    theta = [round(v * sc, 5) for v in base["theta"]]
    T = base["t0"] + (base["ops"][0]["T"] - base["t0"]) / sc
    cfg = {"id": "pool", "kind": "pool", "model": base["model"], "theta": theta, "x0": base["x0"], "t0": base["t0"], "T": float(round(T, 9))}
    if theta and rng.random() < 0.35:
        # the owner re-binds the parameters half way through the paths simulated on this object
        cfg["theta2"] = [round(v * rng.uniform(0.6, 1.4), 5) for v in theta]
        cfg["rebind_as"] = rng.choice(["list", "dict", "partial"])
    return {"engine": "law", "config": cfg, "chunk_seed": seed, "paths": rng.choice([4, 8, 16]), "batch": "fault_free",
            "est_events": base.get("est_events", 1000.0)}


# ---------------------------------------------------------------------------------------------------
def sir_final_pmf(N, s0, i0, beta, gamma):
    """pmf of the final number recovered, from the embedded jump chain (dynamic programming)."""
    prob = {(s0, i0): 1.0}
    final = np.zeros(N + 1)
    for tot in range(s0 + i0, -1, -1):              # s + i never increases... process states by decreasing s then i
        pass
    # states (s, i): infection -> (s-1, i+1), removal -> (s, i-1); order by s descending, then i descending is not
    # topological for infection; use a queue over (s descending, then arbitrary) with repeated sweeps over i ascending
    from collections import defaultdict
    cur = defaultdict(float)
    cur[(s0, i0)] = 1.0
    # every transition lowers 2*s + i by exactly 1: process in decreasing order of that potential
    for pot in range(2 * s0 + i0, -1, -1):
        keys = [k for k in cur if 2 * k[0] + k[1] == pot]
        for (s, i) in keys:
            p = cur.pop((s, i))
            if i == 0:
                final[N - s] += p
                continue
            a_inf = beta * s * i / N
            a_rem = gamma * i
            tot_ = a_inf + a_rem
            if a_inf > 0:
                cur[(s - 1, i + 1)] += p * a_inf / tot_
            cur[(s, i - 1)] += p * a_rem / tot_
    return final


def chain_probs(rates, t):
    k = len(rates) + 1
    Q = np.zeros((k, k))
    for i, r in enumerate(rates):
        Q[i, i] = -r
        Q[i, i + 1] = r
    return scipy.linalg.expm(Q * t)[0]


# ---------------------------------------------------------------------------------------------------
def run_chunk(case):
    """Simulate case['paths'] exact paths of the configuration; return (failures, stats, payload, log)."""
    cfg = case["config"]
    jcase = {"engine": "jump", "model": cfg["model"], "theta": cfg["theta"], "x0": cfg["x0"], "t0": cfg.get("t0", 0.0),
             "env": {"K": "lambda", "R": {"mode": "natural"}}, "ops": [], "est_events": case.get("est_events", 2000.0)}
    kind = cfg["kind"]
    t0 = float(cfg.get("t0", 0.0))
    if kind == "chain":
        horizon = t0 + cfg["t"]
    elif kind == "sir":
        horizon = 1e6                       # until extinction
        jcase["est_events"] = 4.0 * cfg["N"]
    else:
        horizon = cfg["T"]
    out, stats, log = [], {}, []
    pit = np.zeros(NBINS, int)
    hold = np.zeros(NBINS, int)
    choice_sum = np.zeros(8)
    choice_n = np.zeros(8, int)
    occ = None
    occ_paths = []
    finals = []
    sess = jump.Session(jcase)
    try:
        ref, theta = sess.ref, sess.theta
        np.random.seed(int(case["chunk_seed"]) % (2 ** 32))
        op = {"op": "paths", "T": float(horizon), "n": 1, "exact": True, "single": True}
        for pth in range(int(case["paths"])):
            if cfg.get("theta2") and pth == max(1, int(case["paths"]) // 2):
                names_ = ref.param_names
                th2 = list(cfg["theta2"])
                how_ = cfg.get("rebind_as", "list")
                if how_ == "dict":
                    sess.ode.parameters = dict(zip(names_, th2))
                elif how_ == "partial":
                    keep_ = names_[::2]
                    sess.ode.parameters = {nm: v for nm, v in zip(names_, th2) if nm in keep_}
                    th2 = [v if nm in keep_ else old for nm, v, old in zip(names_, th2, sess.theta)]
                else:
                    sess.ode.parameters = list(th2)
                sess.theta = th2
                theta = th2
                stats["rebinds"] = stats.get("rebinds", 0) + 1
            sess.r.reset_log()
            # every other path of a closed-form configuration is observed through gridded output
            gridded = kind in ("chain", "sir") and pth % 2 == 1
            if gridded:
                tgrid = np.array([t0, t0 + cfg["t"], t0 + 3.0 * cfg["t"]]) if kind == "chain" else np.array([t0, t0 + 400.0, t0 + 1000.0])
                try:
                    Xg, Jg, Tg = sess.ode.solve_stochast(tgrid, 1, exact=True, full_output=True)
                except (jump.seams.StepCap, jump.seams.Explosion):
                    stats["inconclusive"] = stats.get("inconclusive", 0) + 1
                    continue
                except core.RunTimeout:
                    raise
                except Exception as e:
                    out.append(core.crash_failure(PROP, e, pth, "solve_stochast exact, gridded"))
                    break
                Xg = np.asarray(Xg[0], float)
                log.append(["g", core.digest(Xg.tolist())])
                stats["gridded_paths"] = stats.get("gridded_paths", 0) + 1
                for kind_, rate, v in sess.r.log:
                    if kind_ == "e" and rate > 0:
                        u = -math.expm1(-rate * v)
                        pit[min(NBINS - 1, int(u * NBINS))] += 1
                if kind == "chain":
                    occ = Xg[1].copy() if occ is None else occ + Xg[1]
                    occ_paths.append([int(round(v)) for v in Xg[1]])
                else:
                    finals.append(int(round(Xg[-1][2])))
                    if Xg[-1][1] != 0:
                        stats["sir_not_extinct"] = stats.get("sir_not_extinct", 0) + 1
                continue
            try:
                Xs, Js, Ts = sess.ode.solve_stochast(np.float64(horizon), 1, exact=True, full_output=True)
            except (jump.seams.StepCap, jump.seams.Explosion):
                stats["inconclusive"] = stats.get("inconclusive", 0) + 1
                continue
            except core.RunTimeout:
                raise
            except Exception as e:
                out.append(core.crash_failure(PROP, e, pth, "solve_stochast exact"))
                break
            X, J, T = np.asarray(Xs[0], float), np.asarray(Js[0], float), np.asarray(Ts[0], float)
            plog = list(sess.r.log)
            sub = []
            jump.check_raw_path(sess, op, X, J, T, plog, sub, stats, True)
            out.extend(f for f in sub if f["oracle"].startswith("C05."))
            log.append(["p", core.digest([X.tolist(), T.tolist()])])
            # layer 1: PIT of every clock drawn
            for kind_, rate, v in plog:
                if kind_ == "e" and rate > 0:
                    u = -math.expm1(-rate * v)
                    pit[min(NBINS - 1, int(u * NBINS))] += 1
            # layer 2: holding times against the total reference rate, chosen event against a_j / a_0
            K = len(T) - 1
            for k in range(K):
                a = ref.rates(X[k], T[k], theta)
                a0 = float(a.sum())
                if a0 <= 0:
                    continue
                u = -math.expm1(-a0 * float(T[k + 1] - T[k]))
                hold[min(NBINS - 1, int(u * NBINS))] += 1
                fired = int(np.argmax(J[k]))
                for j in range(min(8, len(a))):
                    choice_sum[j] += (1.0 if fired == j else 0.0) - a[j] / a0
                    choice_n[j] += 1
            # layer 3
            if kind == "chain":
                idx = int(np.searchsorted(T, t0 + cfg["t"], side="right")) - 1
                st_ = X[max(idx, 0)]
                occ = st_.copy() if occ is None else occ + st_
                occ_paths.append([int(round(v)) for v in st_])
            elif kind == "sir":
                finals.append(int(round(X[-1][2])))
                if X[-1][1] != 0:
                    stats["sir_not_extinct"] = stats.get("sir_not_extinct", 0) + 1
    finally:
        sess.close()
    payload = {"cfg": cfg["id"], "pit": pit.tolist(), "hold": hold.tolist(), "choice_sum": choice_sum.tolist(),
               "choice_n": choice_n.tolist(), "occ": None if occ is None else occ.tolist(), "paths": int(case["paths"]),
               "finals": finals, "occ_paths": occ_paths}
    return out, stats, payload, log


def binom_region(n, p, alpha):
    lo = int(scipy.stats.binom.ppf(alpha / 2.0, n, p))
    hi = int(scipy.stats.binom.isf(alpha / 2.0, n, p))
    return lo, hi


def test_pooled(cfg, payloads, alpha_each):
    """All statistical tests of one configuration on pooled payloads.  Returns (failures, ntests, summary)."""
    fails = []
    pit = np.sum([p["pit"] for p in payloads], axis=0)
    hold = np.sum([p["hold"] for p in payloads], axis=0)
    cs = np.sum([p["choice_sum"] for p in payloads], axis=0)
    cn = np.sum([p["choice_n"] for p in payloads], axis=0)
    summary = {"clocks": int(pit.sum()), "steps": int(hold.sum())}
    for name, h in (("pit", pit), ("holding", hold)):
        n = int(h.sum())
        if n < 2000:
            continue
        lo, hi = binom_region(n, 1.0 / NBINS, alpha_each)
        for b in range(NBINS):
            if not (lo <= h[b] <= hi):
                fails.append(core.fail("C05.law.%s" % name, b, "%s: configuration %s: bin %d of %d holds %d of %d values, exact binomial region [%d, %d] at alpha %.1e (histogram %s)" % (
                    "clock PIT 1-exp(-rate*value)" if name == "pit" else "holding-time PIT against the total rate",
                    cfg["id"], b, NBINS, int(h[b]), n, lo, hi, alpha_each, h.tolist())))
                break
    for j in range(len(cs)):
        n = int(cn[j])
        if n < 200:
            continue
        bound = math.sqrt(2.0 * n * math.log(2.0 / alpha_each))
        if abs(cs[j]) > bound:
            fails.append(core.fail("C05.law.choice", j, "configuration %s: event slot %d fired %+.1f times more often than a_j/a_0 predicts over %d steps (Azuma-Hoeffding bound %.1f)" % (
                cfg["id"], j, float(cs[j]), n, bound)))
    if cfg["kind"] == "chain":
        occ = np.sum([p["occ"] for p in payloads if p["occ"] is not None], axis=0)
        R = sum(p["paths"] for p in payloads if p["occ"] is not None)
        probs = chain_probs(cfg["theta"], cfg["t"])
        n = int(cfg["N"] * R)
        summary["chain_individuals"] = n
        if int(round(float(np.sum(occ)))) != n:
            fails.append(core.fail("C05.law.occupancy", -1, "configuration %s: pooled occupancy %s does not add up to %d individuals" % (cfg["id"], occ.tolist(), n)))
        else:
            for s_, p_ in enumerate(probs):
                lo, hi = binom_region(n, float(min(max(p_, 0.0), 1.0)), alpha_each)
                if not (lo <= occ[s_] <= hi):
                    fails.append(core.fail("C05.law.occupancy", s_, "configuration %s: stage %d holds %d of %d individuals at t=%r, expm(Qt) gives p=%.6f, exact region [%d, %d]" % (
                        cfg["id"], s_ + 1, int(occ[s_]), n, cfg["t"], float(p_), lo, hi)))
                    break
        # the occupancy of one stage in ONE path is Binomial(N, p): its whole distribution over paths (not only the
        # pooled mean) - groups of values with probability >= 0.1 each, fixed by the law, exact binomial region per group
        paths = [v for p in payloads for v in p.get("occ_paths", [])]
        Rp = len(paths)
        summary["chain_paths"] = Rp
        if Rp >= 200 and not fails:
            Nn = int(cfg["N"])
            for s_, p_ in enumerate(probs):
                p_ = float(min(max(p_, 0.0), 1.0))
                pmf = scipy.stats.binom.pmf(np.arange(Nn + 1), Nn, p_)
                groups, acc, cur = [], 0.0, []
                for v_ in range(Nn + 1):
                    cur.append(v_)
                    acc += pmf[v_]
                    if acc >= 0.1:
                        groups.append((cur, acc))
                        cur, acc = [], 0.0
                if cur:
                    if groups:
                        groups[-1] = (groups[-1][0] + cur, groups[-1][1] + acc)
                    else:
                        groups.append((cur, acc))
                if len(groups) < 2:
                    continue
                vals = np.array([pp[s_] for pp in paths])
                for members, gp in groups[:6]:
                    c_ = int(np.sum((vals >= members[0]) & (vals <= members[-1])))
                    lo, hi = binom_region(Rp, float(min(gp, 1.0)), alpha_each)
                    if not (lo <= c_ <= hi):
                        fails.append(core.fail("C05.law.occupancy_dist", s_, "configuration %s: in %d of %d paths stage %d holds %d..%d individuals at t=%r; Binomial(%d, %.5f) gives probability %.5f, exact region [%d, %d]" % (
                            cfg["id"], c_, Rp, s_ + 1, members[0], members[-1], cfg["t"], Nn, p_, gp, lo, hi)))
                        break
                if fails:
                    break
    if cfg["kind"] == "sir":
        finals = [f for p in payloads for f in p["finals"]]
        R = len(finals)
        summary["sir_runs"] = R
        if R >= 200:
            pmf = sir_final_pmf(cfg["N"], cfg["x0"][0], cfg["i0"], cfg["theta"][0], cfg["theta"][1])
            # merge neighbouring sizes into bins of probability >= 0.05 (fixed by the pmf, not by the data)
            bins, acc, cur = [], 0.0, []
            for r_, p_ in enumerate(pmf):
                cur.append(r_)
                acc += p_
                if acc >= 0.05:
                    bins.append((cur, acc))
                    cur, acc = [], 0.0
            if cur:
                if bins:
                    bins[-1] = (bins[-1][0] + cur, bins[-1][1] + acc)
                else:
                    bins.append((cur, acc))
            counts = np.bincount(np.clip(finals, 0, cfg["N"]), minlength=cfg["N"] + 1)
            for members, p_ in bins:
                c_ = int(sum(counts[m] for m in members))
                lo, hi = binom_region(R, float(min(p_, 1.0)), alpha_each)
                if not (lo <= c_ <= hi):
                    fails.append(core.fail("C05.law.finalsize", members[0], "configuration %s: final sizes %d..%d occurred %d times in %d runs, jump-chain probability %.5f, exact region [%d, %d]" % (
                        cfg["id"], members[0], members[-1], c_, R, p_, lo, hi)))
                    break
    ntests = 2 * NBINS + 8 + 12 + 24
    return fails, ntests, summary


def alpha_each():
    return ALPHA / (NCONF * (2 * NBINS + 8 + 12 + 24))


def execute(case):
    if case.get("aggregate"):
        payloads, stats, log = [], {}, []
        fails = []
        for ch in case["chunks"]:
            f, st_, pl, lg = run_chunk(ch)
            fails.extend(f)
            payloads.append(pl)
            log.extend(lg)
        tf, _, summary = test_pooled(case["config"], payloads, alpha_each())
        seen, uniq = set(), []
        for f in fails + tf:
            if f["oracle"] not in seen:
                seen.add(f["oracle"])
                uniq.append(f)
        log.append(["failures", sorted(seen)])
        return {"failures": uniq, "stats": summary, "log": log, "faults": {}, "measure": [], "nontrivial": True}
    out, stats, payload, log = run_chunk(case)
    seen, uniq = set(), []
    for f in out:
        if f["oracle"] not in seen:
            seen.add(f["oracle"])
            uniq.append(f)
    log.append(["failures", sorted(seen)])
    cfg = case["config"]
    return {"failures": uniq, "stats": stats, "log": log, "faults": {}, "payload": payload,
            "measure": [[cfg["kind"], sum(cfg.get("x0", [0])), len(cfg.get("model", {}).get("processes", []))]],
            "nontrivial": stats.get("exact_steps", 0) >= 50}


def aggregate(recs, tier):
    """Pool the payloads per configuration and run the statistical tests."""
    cfgs = {c["id"]: c for c in configs()}
    by = {}
    for r in recs:
        if "payload" in r:
            by.setdefault(r["payload"]["cfg"], []).append(r)
    extra = {"statistical_tests": {}, "alpha_total": ALPHA, "alpha_each": alpha_each()}
    first_fail = None
    for cid in sorted(by):
        rs = by[cid]
        cfg = cfgs[cid] if cid != "pool" else {"id": "pool", "kind": "pool"}
        fails, ntests, summary = test_pooled(cfg, [r["payload"] for r in rs], alpha_each())
        summary["runs"] = len(rs)
        summary["failed"] = [f["oracle"] for f in fails]
        extra["statistical_tests"][cid] = summary
        if fails and first_fail is None:
            chunks = [generate(r["seed"], tier, r["index"]) for r in rs]
            first_fail = {"failures": fails[:1], "case": {"engine": "law", "aggregate": True, "config": cfg, "chunks": chunks,
                                                           "property": PROP, "tier": tier, "run_seed": rs[0]["seed"]}}
    return first_fail, extra


def reductions(case):
    if case.get("aggregate"):
        return iter(())
    return iter(())

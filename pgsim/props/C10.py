"""C10 -- closed compartmental models conserve the total population.
Three kinds of run: stochastic paths (engine jump, R seam: the native part), deterministic solutions
(engine solver, I seam), and the symbolic / numeric right-hand side (engine session, K seam)."""
import copy
import random

import numpy as np
import sympy as sp

from .. import core, gen, seams
from ..build import build_model, insertion_order
from ..engines import jump, solver, session
from ..refmodel import RefModel, sym_equal
from . import _session_common as sc

PROP = "C10"
BUDGET = {"quick": 1200, "thorough": 25000}
ALARM_S = 900
RULE = ("seeded transition-only models (every process a between-state transition; numeric, integer or symbolic magnitudes; "
        "multi-transition events; all routes): 50% stochastic paths exact / tau-leap on natural and adversarially scripted "
        "streams (sum of states must be kept exactly), 25% deterministic solutions through integrate (odeint) and integrate2 "
        "(every method) under each I-seam policy (sum constant to 1e-6 relative), 25% symbolic sum of get_ode_eqn() == 0 and "
        "numeric sum of ode(x,t) under K-seam plans; non-trivial = >= 3 accepted stochastic steps, or >= 3 solution rows, or "
        ">= 2 events; distinct = distinct case digests")
MEASURE = "distinct (kind, n_states, n_events, algorithm or method, seam mode) tuples"
COMPONENTS = {"real": ["pygom SimulateOde (solve_stochast, integrate, integrate2, get_ode_eqn, ode)", "scipy integrators", "numpy generator"],
              "stub": ["R seam", "I seam", "K seam"]}
ASSUMPTIONS = ["integer magnitudes on the stochastic paths (states stay integer-valued floats, so the sum is exact)",
               "deterministic tolerance 1e-6 (1+|total|)"]
KEEP = ("C10.",)


def transition_only(rng, stochastic, n=None, symbolic=True):
    for _ in range(500):
        model, names, params = gen.gen_model(rng, stochastic=stochastic, n=n or rng.randint(2, 5), m=rng.randint(1, 5),
                                             with_odes=False, with_derived=(not stochastic) and rng.random() < 0.3,
                                             symbolic_mag=symbolic and not stochastic, allow_range=rng.random() < 0.15,
                                             p=rng.randint(1, 4))
        for pr in model["processes"]:
            pr["trans"] = [tr for tr in pr["trans"] if tr["type"] == "T"]
        model["processes"] = [pr for pr in model["processes"] if pr["trans"]]
        if model["processes"] and len(names) >= 2:
            for pr in model["processes"]:
                pr["route"] = gen.choose_route(rng, pr, allow_add=True)
            return model, names, params
    raise core.HarnessError("no transition-only model")


def generate(seed, tier):
    S = core.Streams(seed)
    rng = S("c10")
    r = rng.random()
    if r < 0.5:
        case = jump.gen_case(S, tier, PROP, {"transition_only": True, "n": rng.randint(2, 5)})
        case["kind"] = "stoch"
        return case
    if r < 0.75:
        for _ in range(100):
            model, names, params = transition_only(rng, stochastic=False)
            theta = [round(rng.uniform(0.1, 1.5), 3) for _ in params]
            x0 = [round(rng.uniform(0.5, 6.0), 3) for _ in names]
            t0 = 0.0
            ref = RefModel(model, insertion_order(model))
            ops = solver.gen_solve_ops(rng, t0, 6.0, rng.randint(1, 3))
            ops = [op for op in ops if op["entry"] in ("integrate", "integrate2", "solve_determ")] or \
                [{"op": "solve", "entry": "integrate", "grid": solver.gen_times(rng, t0, 6.0), "gtype": "array"}]
            chk = solver.safe_reference(ref, theta, x0, t0, [0.5, 1, 2, 4, 6])
            if chk is None or chk.min() < 0 or any(solver.safe_reference(ref, theta, x0, t0, op["grid"]) is None for op in ops):
                continue
            env, batch = solver.env_for(S, tier)
            return {"engine": "solver", "kind": "det", "problem": "random", "model": model, "theta": theta, "x0": x0, "t0": t0,
                    "env": env, "ops": ops, "batch": batch}
        raise core.HarnessError("no C10 det case")
    model, names, params = transition_only(rng, stochastic=False)
    kenv, batch = sc.k_plan(S("faults"), tier, allow_cython=False)
    pts = [gen.gen_point(rng, names, params)[:2] for _ in range(3)]
    theta = [round(rng.uniform(0.05, 3.0), 4) for _ in params]
    return {"engine": "session", "kind": "sym", "model": model, "env": {"K": kenv}, "theta": theta, "points": [list(p) for p in pts],
            "batch": batch}


def execute_sym(case):
    out, stats, log = [], {}, []
    live = None
    rng = random.Random(case.get("run_seed", 0) ^ 0xC10)
    c = dict(case)
    c["ops"] = []
    try:
        try:
            live = session.Live(c)
            if live.ref.p:
                live.ode.parameters = list(case["theta"])
                live.values = dict(zip(live.ref.param_names, case["theta"]))
        except core.HarnessError:
            raise
        except Exception as e:
            out.append(core.crash_failure(PROP, e, -1, "model construction"))
            return {"failures": out, "stats": stats, "log": log, "faults": {}, "measure": [], "nontrivial": False}
        ref = live.ref
        names = ref.state_names + ref.param_names + ["t"]
        try:
            eq = live.ode.get_ode_eqn()
            total = sum(eq[i] for i in range(ref.n))
            ok, worst = sym_equal(total, sp.Integer(0), rng, names, trials=4)
            # compare against the size of the terms, not 1
            if not ok:
                pt_scale = max(1.0, float(worst))
                out.append(core.fail("C10.sym.sum", 0, "the components of get_ode_eqn() sum to %s, not zero" % sp.simplify(total)))
        except core.RunTimeout:
            raise
        except Exception as e:
            out.append(core.crash_failure(PROP, e, 0, "get_ode_eqn"))
        for k, (x, t) in enumerate(case["points"]):
            try:
                f = core.num_array(live.ode.ode(np.array(x, float), t))
            except core.RunTimeout:
                raise
            except Exception as e:
                out.append(core.crash_failure(PROP, e, k, "ode(x,t)"))
                continue
            V = np.abs(ref.num("V", x, t, case["theta"]))
            a = np.abs(ref.rates(x, t, case["theta"]))
            scale = float(V.dot(a).sum()) + 1e-12
            stats["evaluations"] = stats.get("evaluations", 0) + 1
            log.append(["sum", k, "%.3e" % float(f.sum())])
            if abs(f.sum()) > 1e-9 * scale:
                out.append(core.fail("C10.num.sum", k, "sum of ode(x,t) is %r (terms of size %r)" % (float(f.sum()), scale)))
    finally:
        if live is not None:
            live.close()
    return {"failures": out, "stats": stats, "log": log, "faults": live.fired() if live else {}, "measure": [],
            "nontrivial": len(case["model"]["processes"]) >= 2}


def execute(case):
    kind = case.get("kind")
    if kind == "stoch":
        res = jump.execute(case, keep_prefix=KEEP)
        op = case["ops"][0]
        res["measure"] = [["stoch", len(case["x0"]), len(case["model"]["processes"]),
                           "exact" if op["exact"] else "tau", case["env"]["R"]["mode"]]]
        return res
    if kind == "det":
        res = solver.execute(case, keep_prefix=KEEP)
        res["nontrivial"] = bool(res["stats"].get("conservation_checked", 0))
        res["measure"] = [["det", len(case["x0"]), len(case["model"]["processes"]), op.get("method") or op["entry"], case["env"]["I"]]
                          for op in case["ops"]]
        return res
    res = execute_sym(case)
    res["measure"] = [["sym", len(case["model"]["states"]), len(case["model"]["processes"]), "ode", str(case["env"]["K"])[:40]]]
    return res


def reductions(case):
    kind = case.get("kind")
    if kind == "stoch":
        return jump.reductions(case)
    if kind == "det":
        return solver.reductions(case)
    c = dict(case)
    c.setdefault("ops", [])
    return (dict(d, ops=[]) for d in session.reductions(c))

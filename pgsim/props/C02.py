"""C02 -- deterministic solvers return the ODE solution at each requested time (engine: solver, I seam)."""
from .. import core
from ..build import insertion_order
from ..engines import solver
from ..refmodel import RefModel

PROP = "C02"
BUDGET = {"quick": 900, "thorough": 25000}
ALARM_S = 900
RULE = ("catalogue models (SIR, SIR/N, SEIR, SIS, SIR with births and deaths, Lotka-Volterra, FitzHugh, linear chain, "
        "additive-parameter ODE, logistic) and bounded seeded random models x parameters x time grids (uniform / non-uniform, "
        "array / list / tuple / scalar, float or integer dtype) x initial time (integer or fractional; numpy, float or int typed) x initial state as array / list / tuple / integer array x entry point {integrate, solve_determ, integrate2, integrateFuncJac} x method "
        "{None, lsoda, vode, ivode, dopri5, dop853} x full_output x includeOrigin x I-seam buffer policy {native, fresh, "
        "reuse}; non-trivial = some solve returned >= 3 rows whose reference values differ pairwise by > 100 x tolerance; "
        "distinct = distinct case digests")
MEASURE = "distinct (entry point, method, full_output, includeOrigin, grid type, buffer policy) tuples"
COMPONENTS = {"real": ["pygom DeterministicOde.integrate/integrate2, SimulateOde.solve_determ, ode_utils.integrate, integrateFuncJac",
                       "scipy.integrate.ode (lsoda, vode, dopri5, dop853) and odeint: all numerics"],
              "stub": ["I seam: proxy around scipy.integrate.ode that decides the identity of the array returned as .y "
                       "(native / fresh copy every step / one persistent buffer overwritten in place)",
                       "K seam or backend='lambda' for the right-hand side"]}
ASSUMPTIONS = ["reference = solve_ivp DOP853 at rtol 1e-11 (independent code path); tolerance 1e-5 (1 + max|x|)",
               "bounded solutions (|x| < 1e4 on the grid) on horizons <= 40 time units",
               "integrator failure is outside the property (bounded-rate models on which the integrators succeed)"]
KEEP = ("C02.",)


def generate(seed, tier):
    S = core.Streams(seed)
    rng = S("gen")
    for _ in range(50):
        name, model, theta, x0, t0, tmax, box, pos = solver.pick_problem(rng)
        ref = RefModel(model, insertion_order(model))
        ops = solver.gen_solve_ops(rng, t0, tmax, rng.randint(1, 3))
        if any(solver.safe_reference(ref, theta, x0, t0, op["grid"]) is None for op in ops):
            continue
        env, batch = solver.env_for(S, tier)
        return {"engine": "solver", "problem": name, "model": model, "theta": theta, "x0": x0, "t0": t0,
                "env": env, "ops": ops, "batch": batch,
                "x0_as": rng.choice(["array", "array", "list", "tuple", "int_array"]),
                "t0_as": rng.choice(["numpy", "float", "int"])}
    raise core.HarnessError("no C02 case")


def execute(case):
    res = solver.execute(case, keep_prefix=KEEP)
    res["nontrivial"] = res["stats"].get("nontrivial_solves", 0) > 0
    res["measure"] = [[op["entry"], op.get("method"), bool(op.get("full_output")), bool(op.get("include_origin")),
                       op.get("gtype"), case["env"]["I"]] for op in case["ops"] if op["op"] == "solve"]
    return res


reductions = solver.reductions

"""C02 -- deterministic solvers return the ODE solution at each requested time (engine: solver, I seam)."""
from .. import core
from ..build import insertion_order
from ..engines import solver
from ..refmodel import RefModel

PROP = "C02"
BUDGET = {"quick": 1800, "thorough": 40000}
ALARM_S = 900
RULE = ("catalogue models (SIR, SIR/N, SEIR, SIS, SIR with births and deaths, Lotka-Volterra, FitzHugh, van der Pol, linear chain, "
        "additive-parameter ODE, logistic) and bounded seeded random models x parameters x time grids (uniform / non-uniform, "
        "array / list / tuple / scalar, float or integer dtype; 12% sparse grids on oscillators with gaps of 10-60 time units, i.e. hundreds to thousands of internal steps per interval) x initial time (integer or fractional; numpy, float or int typed) x initial state as array / list / tuple / integer array x entry point {integrate, solve_determ, integrate2, integrateFuncJac} x method "
        "{None, lsoda, vode, ivode, dopri5, dop853} x full_output x includeOrigin x I-seam buffer policy {native, fresh, "
        "reuse} x histories on one object (the owner re-assigns parameters - list / array / dict / permuted pairs / partial dict - and initial values / initial time between solves: H.interleave); non-trivial = some solve returned >= 3 rows whose reference values differ pairwise by > 100 x tolerance; "
        "distinct = distinct case digests")
MEASURE = "distinct (entry point, method, full_output, includeOrigin, grid type, buffer policy, directly-after-rebind) tuples"
COMPONENTS = {"real": ["pygom DeterministicOde.integrate/integrate2, SimulateOde.solve_determ, ode_utils.integrate, integrateFuncJac",
                       "scipy.integrate.ode (lsoda, vode, dopri5, dop853) and odeint: all numerics"],
              "stub": ["I seam: proxy around scipy.integrate.ode that decides the identity of the array returned as .y "
                       "(native / fresh copy every step / one persistent buffer overwritten in place)",
                       "K seam or backend='lambda' for the right-hand side"]}
ASSUMPTIONS = ["reference = solve_ivp DOP853 at rtol 1e-11 (independent code path); tolerance 1e-5 (1 + max|x|)",
               "bounded solutions (|x| < 1e4 on the grid) on horizons <= 40 time units (<= 150 for the sparse long-gap grids, with the tolerance scaled by horizon/4)",
               "integrator failure is outside the property (bounded-rate models on which the integrators succeed)"]
KEEP = ("C02.",)


def generate(seed, tier):
    S = core.Streams(seed)
    rng = S("gen")
    for _ in range(50):
        long_gap = rng.random() < 0.12
        name, model, theta, x0, t0, tmax, box, pos = solver.pick_problem(rng, random_frac=0.0, only=["VDP", "FH", "LV"]) \
            if long_gap else solver.pick_problem(rng)
        ref = RefModel(model, insertion_order(model))
        ops = solver.gen_solve_ops(rng, t0, tmax, rng.randint(1, 3))
        if long_gap:
            ops.insert(rng.randint(0, len(ops)), solver.gen_long_gap_op(rng, t0))
        if any(solver.safe_reference(ref, theta, x0, t0, op["grid"]) is None for op in ops):
            continue
        if rng.random() < 0.4:
            # a history on one object: the owner re-assigns parameters / initial values between solves
            more = _history(rng, ref, name, theta, x0, t0, tmax, box, pos, first_solve=[o for o in ops if not o.get('long')][-1] if [o for o in ops if not o.get('long')] else None,
                            rounds=3 if tier != "thorough" else 6)
            if more is None:
                continue
            ops = ops + more
        env, batch = solver.env_for(S, tier)
        if any(op["op"] == "rebind" for op in ops):
            batch = "fault_injecting"          # H.interleave
        return {"engine": "solver", "problem": name, "model": model, "theta": theta, "x0": x0, "t0": t0,
                "env": env, "ops": ops, "batch": batch,
                "x0_as": rng.choice(["array", "array", "list", "tuple", "int_array"]),
                "t0_as": rng.choice(["numpy", "float", "int"])}
    raise core.HarnessError("no C02 case")


def _history(rng, ref, name, theta, x0, t0, tmax, box, pos, first_solve=None, rounds=3):
    """1-3 rounds of (rebind; 1-2 solves).  Every solve is checked against the reference for the values current
    at that point; rounds whose reference leaves the bounded domain are dropped."""
    out = []
    cur_th, cur_x0, cur_t0 = list(theta), list(x0), t0
    prev_solve = first_solve
    names = ref.param_names
    for _ in range(rng.randint(1, rounds)):
        rb = {"op": "rebind"}
        if ref.p and rng.random() < 0.8:
            th = [solver.rand_in_box(rng, b) for b in box]
            how = rng.choice(["list", "array", "dict", "pairs", "partial"])
            rb.update({"theta": th, "how": how})
            if how == "pairs":
                perm = list(range(len(names)))
                rng.shuffle(perm)
                rb["perm"] = perm
            if how == "partial":
                keep = [nm for nm in names if rng.random() < 0.5] or [rng.choice(names)]
                rb["names"] = keep
                th = [th[i] if names[i] in keep else cur_th[i] for i in range(len(names))]
        else:
            th = list(cur_th)
        nx0, nt0 = cur_x0, cur_t0
        if rng.random() < 0.6 or "theta" not in rb:
            nx0 = [round(v * rng.uniform(0.6, 1.4), 4) for v in cur_x0]
            if name != "random" and not pos:
                nx0 = [round(v + rng.uniform(-0.2, 0.2), 4) for v in nx0]
            nt0 = rng.choice([cur_t0, cur_t0, cur_t0 + 0.5, 0.0, 1.25])
            rb.update({"x0": nx0, "t0": nt0, "t0_as": rng.choice(["numpy", "float"])})
        solves = solver.gen_solve_ops(rng, nt0, tmax, rng.randint(1, 2))
        if prev_solve is not None and rng.random() < 0.4 and prev_solve["grid"][0] > nt0 + 1e-6:
            # the very same grid (and entry point) as before the re-binding
            solves[0] = dict(prev_solve)
        chk = [solver.safe_reference(ref, th, nx0, nt0, op["grid"]) for op in solves]
        if any(c is None for c in chk) or (name == "random" and min(c.min() for c in chk) < 0.0):
            continue
        out.append(rb)
        out.extend(solves)
        prev_solve = solves[-1]
        cur_th, cur_x0, cur_t0 = th, nx0, nt0
    return out


def execute(case):
    res = solver.execute(case, keep_prefix=KEEP)
    res["nontrivial"] = res["stats"].get("nontrivial_solves", 0) > 0
    res["measure"] = [[op["entry"], op.get("method"), bool(op.get("full_output")), bool(op.get("include_origin")),
                       op.get("gtype"), case["env"]["I"], k > 0 and case["ops"][k - 1]["op"] == "rebind"]
                      for k, op in enumerate(case["ops"]) if op["op"] == "solve"]
    return res


reductions = solver.reductions

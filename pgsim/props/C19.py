"""C19 -- R-style distribution helpers are the distributions they name (engine: distn)."""
from .. import core
from ..engines import distn

PROP = "C19"
BUDGET = {"quick": 4000, "thorough": 80000}
ALARM_S = 600
RULE = ("seeded sequences of 4-10 calls over the nine families: d/p/q against scipy.stats in R's parameterisation (plain and "
        "log, scalar and vector arguments inside the support, q(p(x)) = x, nbinom mean/size form against the (n, p) form), and "
        "the seeding clause r(n, ..., seed=k) twice with other consumers of the global generator before and between the calls "
        "(and draws inside the support); non-trivial = >= 2 calls; distinct = distinct case digests")
MEASURE = "distinct (call kind, family) pairs"
COMPONENTS = {"real": ["pygom.utilR.distn", "numpy global generator / RandomState"], "stub": ["none: the 'other clients' are harness calls of numpy.random"]}
ASSUMPTIONS = ["only the seeding clause meets a seam; the d/p/q clauses are plain seeded reference sampling (DESIGN 7, C19)",
               "whether a seeded call uses a private generator or re-seeds the global one is not constrained",
               "functions that the package does not provide for a family (pbeta, p/q/r nbinom) are not checked"]


def generate(seed, tier):
    return distn.gen_case(core.Streams(seed), tier)


def execute(case):
    return distn.execute(case)


reductions = distn.reductions

"""C20 -- curvature information matches the cost it is meant to describe (engine: solver)."""
from .. import core
from ..build import insertion_order
from ..engines import solver
from ..refmodel import RefModel

PROP = "C20"
BUDGET = {"quick": 400, "thorough": 10000}
ALARM_S = 300
RULE = ("catalogue and bounded random models x theta x observation sets x observed-state selections in any order x weights "
        "(square loss) x target_param subsets x I-seam policy; jtj against the sum of outer products of the weighted "
        "reference sensitivities (+ symmetry, PSD); hessian against the true second-order reference system, and, for models "
        "with mixed state-parameter second derivatives, against the truncated system (known finding D8); non-trivial = a "
        "jtj or hessian call with >= 2 free parameters; distinct = distinct case digests")
MEASURE = "distinct (model, call, #free parameters, #observed states, model has mixed terms, I policy) tuples"
COMPONENTS = {"real": ["pygom.loss.BaseLoss.jtj, hessian, sens_to_jtj", "DeterministicOde.ode_and_sensitivity, ode_and_forwardforward",
                       "scipy.integrate.ode"], "stub": ["I seam (buffer policy)", "backend='lambda'"]}
ASSUMPTIONS = ["hessian is only meaningful for the square loss (the property says so)",
               "reference second-order sensitivities by solve_ivp DOP853 on the exact system written from sympy derivatives"]
KEEP = ("C20.",)


def known_predicate(pred, case):
    """predicate of the D8 finding: the call is hessian and the model has a non-zero mixed
    state-parameter (or parameter-parameter) second derivative."""
    if pred.get("call") == "hessian":
        if not any(op["op"] == "curv" and op["which"] == "hessian" for op in case["ops"]):
            return False
    if pred.get("model_has_mixed_state_param_second_derivative"):
        return RefModel(case["model"]).has_mixed_second_derivative()
    return True


def generate(seed, tier):
    S = core.Streams(seed)
    case = solver.gen_loss_case(S, tier, PROP, ["jtj", "hessian", "hessian"], classes=["SquareLoss"], nloss=1)
    for op in case["ops"]:
        if op["op"] == "loss_new":
            op.pop("target_state", None)
    return case


def execute(case):
    res = solver.execute(case, keep_prefix=KEEP)
    ref = RefModel(case["model"])
    mixed = ref.has_mixed_second_derivative()
    d = [op for op in case["ops"] if op["op"] == "loss_new"][0]
    res["measure"] = [[case["problem"], op["which"], len(op["free"]), len(d["states"]), mixed, case["env"]["I"]]
                      for op in case["ops"] if op["op"] == "curv"]
    res["nontrivial"] = any(len(op["free"]) >= 2 for op in case["ops"] if op["op"] == "curv")
    return res


reductions = solver.reductions

"""C16 -- seeded serial simulations are reproducible (engine: repro; histories on one object)."""
from .. import core
from ..engines import repro

PROP = "C16"
BUDGET = {"quick": 1000, "thorough": 20000}
ALARM_S = 900
RULE = ("histories seed(s); op; [other consumers of the global generator]; seed(s); op; seed(s'); op on the SAME object, "
        "op in {solve_stochast exact/tau raw, solve_stochast gridded, simulate_param, solve_determ with iterations}, random "
        "parameters as frozen scipy.stats distributions or (sampler, args|kwargs) tuples; outputs digested bit-exactly; probe "
        "counting generators built from OS entropy; non-trivial = the op consumed >= 1 random draw (so different seeds must "
        "differ); distinct = distinct case digests")
MEASURE = "distinct (op kind, algorithm, iterations, parameter forms, interleaved consumers) tuples"
COMPONENTS = {"real": ["pygom SimulateOde.solve_stochast / simulate_param / solve_determ", "numpy global generator", "scipy.stats frozen rvs",
                       "pygom.utilR samplers"],
              "stub": ["R seam in recording mode only (counts draws)", "entropy probe bound to the names numpy.random.RandomState / default_rng"]}
ASSUMPTIONS = ["serial mode only (parallel=False), as the property says", "different seeds are required to differ only when >= 1 draw was consumed"]


def generate(seed, tier):
    return repro.gen_case(core.Streams(seed), tier)


def execute(case):
    res = repro.execute(case)
    op = case["ops"][0]
    forms = sorted(set(v[0] if isinstance(v, list) else "num" for v in case.get("param_spec", {}).values()))
    res["measure"] = [[op["kind"], op.get("exact"), op.get("n"), forms, bool(op.get("pre_consume")), bool(op.get("mid_consume"))]]
    return res


reductions = repro.reductions

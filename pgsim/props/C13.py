"""C13 -- sensitivity systems are the variational equations of the model.
Algebraic part: engine session (K seam); integrated part: engine solver (I seam)."""
from .. import core, gen
from ..engines import session
from . import _session_common as sc

PROP = "C13"
BUDGET = {"quick": 1500, "thorough": 30000}
ALARM_S = 400
RULE = ("seeded asymmetric random models x K plan x random augmented vectors z: ode_and_sensitivity in both arrangements, "
        "ode_and_sensitivityIV, and their Jacobians against the exact block form of the reference (confirmed by central "
        "differences of PyGOM's own right-hand side before a Jacobian failure is reported); 25% of the runs integrate the "
        "augmented systems under the I seam and compare dx/dtheta, dx/dx0 with the reference variational solution and with "
        "finite differences of reference solutions; non-trivial = n >= 2 or p >= 2; distinct = distinct case digests")
MEASURE = "distinct (compiled-evaluator bitmask before the op, op kind) pairs"
COMPONENTS = dict(sc.COMPONENTS)
ASSUMPTIONS = ["documented layout: by parameter = vec_F(S) (column-major over the n x p matrix), by state = row-major",
               "10% of the algebraic runs use a parameter-free model and exercise the p=0 branch of the initial-value system"]


def generate(seed, tier):
    S = core.Streams(seed)
    rng = S("gen")
    if rng.random() < 0.25:
        from ..engines import solver
        return solver.gen_sens_case(S, tier, PROP)
    nopar = rng.random() < 0.1
    if nopar:
        model, names, params = gen.gen_model(rng, stochastic=False, p=0, n=rng.choice([1, 2, 3]), m=rng.randint(1, 3),
                                             with_derived=False, with_odes=False, allow_range=False)
    else:
        model, names, params = sc.asym_model(rng, p=rng.randint(1, 4), n=rng.choice([1, 2, 2, 3, 3, 4]), allow_range=False)
    kenv, batch = sc.k_plan(S("faults"), tier)
    n, p = len(names), len(params)
    ops = []
    for _ in range(rng.randint(2, 4)):
        x, t, _ = gen.gen_point(rng, names, [])
        kind = "iv" if nopar else rng.choice(["by_param", "by_state", "iv"])
        # scales: sensitivities (and amounts) of very different magnitude are legal points too
        ssc = rng.choice([1.0, 1.0, 1.0, 1e-3, 1e-6, 1e-9, 1e-12])
        xsc = rng.choice([1.0, 1.0, 1.0, 1.0, 1e-3, 1e-9])
        x = [v * xsc for v in x]
        s = [round(rng.uniform(-2, 2), 4) * ssc for _ in range(n * p)]
        z = list(x) + s
        op = {"op": "sens", "t": t, "by_state": kind == "by_state", "iv": kind == "iv"}
        if kind == "iv":
            z = z + [round(rng.uniform(-2, 2), 4) * ssc for _ in range(n * n)]
        op["z"] = z
        op["jac_first"] = rng.random() < 0.4       # the supplied Jacobian is asked for before the right-hand side
        ops.append(op)
        if not nopar and rng.random() < 0.2:
            # the owner re-binds the parameter values between two uses of the sensitivity functions
            srng_ = S("sched")
            if srng_.random() < 0.5:
                ops.append({"op": "set_params", "fmt": srng_.choice(["list", "array", "pairs"]),
                            "values": [[nm, round(srng_.uniform(0.05, 3.0), 4)] for nm in params]})
            else:
                sub_ = srng_.sample(list(params), srng_.randint(1, len(params)))
                ops.append({"op": "set_params", "fmt": "dict", "values": [[nm, round(srng_.uniform(0.05, 3.0), 4)] for nm in sub_]})
            if srng_.random() < 0.6:
                # ... and the very same point (z, t) is evaluated again right after it
                prev = [o for o in ops if o["op"] == "sens"][-1]
                ops.append(dict(prev, jac_first=srng_.random() < 0.4))
        if not nopar and rng.random() < 0.12 and len(ops) < 4:
            # the model grows between two uses of the sensitivity functions (same states and parameters)
            g = sc.grow_ops(S("sched"), model, names, params, ["grad"], count=1)
            ops.append(g[0])
    theta = [round(rng.uniform(0.05, 3.0), 4) for _ in params]
    return {"engine": "session", "model": model, "env": {"K": kenv}, "theta": theta, "ops": ops, "batch": batch}


def execute(case):
    if case.get("engine") == "solver":
        from ..engines import solver
        res = solver.execute(case, keep_prefix=("C13.",))
        res["nontrivial"] = bool(res["stats"].get("sens_integrations", 0))
        return res
    res = session.execute(case, PROP)
    res["nontrivial"] = len(case["model"]["states"]) >= 2 or len(case["model"]["params"]) >= 2
    return res


def reductions(case):
    if case.get("engine") == "solver":
        from ..engines import solver
        return solver.reductions(case)
    return session.reductions(case)

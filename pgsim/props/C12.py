"""C12 -- equivalent ways of specifying a model give the same model (engine: session; construction
histories: route per process x insertion order x declaration style)."""
from .. import core, gen
from ..build import legacy_ok
from ..engines import session
from . import _session_common as sc

PROP = "C12"
BUDGET = {"quick": 1400, "thorough": 30000}
ALARM_S = 900
RULE = ("one seeded random process set, 2-4 variants differing in route per process (Event, Event whose Transition carries "
        "the rate, bare Transition via event=, legacy transition=/birth_death=, incremental add_* calls), birth named by "
        "origin or destination, insertion order, string vs list declarations of states and parameters, plus (40%) the whole "
        "model as explicit ODE strings; non-trivial = >= 2 variants built and at least two different routes used; "
        "distinct = distinct case digests")
MEASURE = "distinct (variant kind, set of routes, state declaration style, parameter declaration style) tuples"
COMPONENTS = sc.COMPONENTS
ASSUMPTIONS = ["event order = insertion order; rate vectors are compared under the induced permutation",
               "string declarations are used only where no limits are declared and no range-style name is involved",
               "legacy routes only for single-transition events of magnitude 1 (the legacy API cannot express others)"]


def gen_variant(rng, model, names):
    procs = model["processes"]
    routes = []
    for pr in procs:
        opts = ["event", "event_eq"]
        if len(pr["trans"]) == 1:
            opts.append("trans_event")
        if legacy_ok(pr):
            opts += ["legacy", "legacy"]
        r = rng.choice(opts)
        if rng.random() < 0.3:
            r = "add_" + r
        routes.append(r)
    order = list(range(len(procs)))
    if rng.random() < 0.6:
        rng.shuffle(order)
    var = {"routes": routes, "order": order,
           "birth_by": [rng.choice(["o", "d"]) for _ in procs],
           "theta_as": rng.choice(["list", "dict"])}
    plain = all(":" not in s["name"] for s in model["states"])
    if plain and rng.random() < 0.5:
        var["state_decl"] = "string"
        var["state_sep"] = rng.choice([" ", ",", ", ", "  "])
    else:
        var["state_decl"] = "list"
    if rng.random() < 0.5:
        var["param_decl"] = "string"
        var["param_sep"] = rng.choice([" ", ",", ", "])
    else:
        var["param_decl"] = "list"
    # ODEVariable objects with display names that differ from (and collide with other) identifiers
    if plain and not any(s.get("lim") is not None for s in model["states"]) and rng.random() < 0.2:
        var["state_decl"] = "objects"
        var["state_display"] = gen._display_names(rng, names, list(names) + list(model["params"]))
    if rng.random() < 0.25:
        var["param_decl"] = "objects"
        var["param_display"] = gen._display_names(rng, list(model["params"]), list(model["params"]) + list(names))
    return var


def generate(seed, tier):
    S = core.Streams(seed)
    rng = S("gen")
    model, names, params = gen.gen_model(rng, stochastic=False, p=rng.randint(1, 4), m=rng.randint(1, 5),
                                         with_odes=rng.random() < 0.25)
    if model["processes"] and rng.random() < 0.2:
        # the same process entered twice (identical origin, destination and rate string): its rate counts twice
        import copy as _copy
        model["processes"].insert(rng.randint(0, len(model["processes"])), _copy.deepcopy(rng.choice(model["processes"])))
    for pr in model["processes"]:
        pr["route"] = "event"
    variants = [gen_variant(rng, model, names) for _ in range(rng.randint(2, 4))]
    if rng.random() < 0.4:
        variants.append({"kind": "explicit_ode", "state_decl": "list", "param_decl": "list"})
    kenv, batch = sc.k_plan(S("faults"), tier, allow_cython=False)
    pts = []
    for _ in range(2):
        x, t, _ = gen.gen_point(rng, names, [])
        pts.append([x, t])
    theta = [round(rng.uniform(0.05, 3.0), 4) for _ in params]
    return {"engine": "session", "model": model, "variants": variants, "env": {"K": kenv}, "theta": theta,
            "points": pts, "batch": batch}


def execute(case):
    res = session.execute_variants(case, PROP)
    used = set()
    for v in case["variants"]:
        used.update(v.get("routes", []))
        if v.get("kind") == "explicit_ode":
            used.add("explicit_ode")
    res["nontrivial"] = bool(res["nontrivial"] and len(used) >= 2)
    return res


reductions = session.variant_reductions

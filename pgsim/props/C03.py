"""C03 -- Jacobian, gradient, higher derivatives and tau-leap statistics are the true derivatives
(engine: session; same runs as C01 with more observers, deliberately asymmetric models)."""
from .. import core, gen
from ..engines import session
from . import _session_common as sc

PROP = "C03"
BUDGET = {"quick": 1000, "thorough": 30000}
ALARM_S = 900
RULE = ("seeded random model definitions as for C01 but deliberately asymmetric (n != p, n != m) x route x order x K plan "
        "x 2 evaluation points; observers jacobian, grad, diff_jacobian, grad_jacobian, transitionJacobian/Mean/Var in "
        "random order; non-trivial = the model has a non-linear rate (some second derivative is not identically zero) and "
        "n >= 2; distinct = distinct case digests")
MEASURE = "distinct (compiled-evaluator bitmask before the op, op kind) pairs"
COMPONENTS = sc.COMPONENTS
ASSUMPTIONS = ["points away from singularities of the rates", "reference derivatives by sympy.diff on the reference right-hand side"]


def generate(seed, tier):
    S = core.Streams(seed)
    rng = S("gen")
    model, names, params = sc.asym_model(rng, p=rng.randint(1, 5))
    m = len(model["processes"])
    order = list(range(m))
    if rng.random() < 0.4:
        rng.shuffle(order)
    kenv, batch = sc.k_plan(S("faults"), tier)
    ops = []
    for _ in range(2):
        x, t, _th = gen.gen_point(rng, names, params)
        evs = list(sc.C03_EVALS)
        rng.shuffle(evs)
        ops.append({"op": "eval", "names": evs, "x": x, "t": t})
    if rng.random() < 0.3:
        ops.append({"op": "sym", "names": ["jac_eqn", "grad_eqn"]})
    if rng.random() < 0.25 and params:
        ops.extend(sc.grow_ops(S("sched"), model, names, params, sc.C03_EVALS, count=rng.choice([1, 2])))
    theta = [round(rng.uniform(0.05, 3.0), 4) for _ in params]
    return {"engine": "session", "model": model, "order": order, "env": {"K": kenv}, "theta": theta,
            "ops": ops, "batch": batch}


def execute(case):
    res = session.execute(case, PROP)
    txt = session.used_names(case["model"])
    res["nontrivial"] = bool(len(case["model"]["states"]) >= 1 and any(k in txt for k in ("exp", "/(", "*S", "*I", "*X", "*Y", "*A", "cos")))
    return res


reductions = session.reductions

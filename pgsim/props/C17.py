"""C17 -- ABC keeps only particles inside the prior support and under the tolerance (engine: abc)."""
from .. import core
from ..engines import abc

PROP = "C17"
BUDGET = {"quick": 400, "thorough": 8000}
ALARM_S = 900
RULE = ("small inference problems on catalogue models (1-2 inferred parameters plus optionally an initial state, optionally "
        "with the population-size constraint), N in 20..60, G in 1..4, tolerance list or quantile q, M in {None, N-1, smaller}, "
        "priors uniform (deliberately narrow) / gamma / normal, log-scale flags, parameter list in any order; histories get, "
        "get->continue, get->continue->continue on the seeded natural stream x I-seam policy; after every call every particle "
        "is checked (prior density from scipy.stats, weight, distance below final tolerance) and the stored distances are "
        "recomputed independently (reference solution + reference loss, documented transforms); non-trivial = at least one "
        "call completed; distinct = distinct case digests")
MEASURE = "distinct (model, loss class, prior kinds, log-scale?, constraint?, M kind, schedule kind, history) tuples"
COMPONENTS = {"real": ["pygom.approximate_bayesian_computation (Parameter, create_loss, ABC)", "pygom.loss", "pygom.utilR samplers/densities",
                       "numpy global generator", "scipy.integrate.ode"],
              "stub": ["I seam (buffer policy)", "cost-evaluation counter on the loss object (bounds a call that cannot meet its tolerance)"]}
ASSUMPTIONS = ["LinAlgError / non-PSD covariance at small N (upstream warns 'N is low this may cause errors') discards the run: counted, never a verdict",
               "a call that needs more than 6000 cost evaluations is inconclusive (counted)",
               "tolerances of continued runs lie between the best distance achieved so far and the previous final tolerance (or are next_tol)"]


def generate(seed, tier):
    return abc.gen_case(core.Streams(seed), tier)


def execute(case):
    res = abc.execute(case)
    hist = [op["op"] for op in case["ops"]]
    op = case["ops"][0]
    res["measure"] = [[case["problem"], case["loss"]["cls"], sorted(set(p["dist"] for p in case["parameters"])),
                       any(p.get("logscale") for p in case["parameters"]), bool(case.get("constraint")),
                       "none" if op.get("M") is None else ("N-1" if op["M"] == op["N"] - 1 else "small"),
                       "quantile" if op.get("q") is not None else ("list" if isinstance(op["tol"], list) else "single"), hist]]
    return res


reductions = abc.reductions

"""C01 -- a model definition is assembled into exactly the equations it describes (engine: session)."""
import random

from .. import core, gen
from ..engines import session
from . import _session_common as sc

PROP = "C01"
BUDGET = {"quick": 1400, "thorough": 40000}
ALARM_S = 900
RULE = ("seeded random model definitions over the full grammar (1-5 states, 1-5 parameters, 0-5 events of 1-3 T/B/D "
        "transitions, numeric or symbolic magnitudes, linear/mass-action/saturating/exponential/time-periodic rates, ODE "
        "terms, derived parameters, range-style names) x API route per process x insertion order x K plan per compile call "
        "x 2 evaluation points; non-trivial = some event has >= 2 transitions or a symbolic magnitude or a birth named by "
        "origin, or the model has a derived parameter or ODE term; distinct = distinct case digests")
MEASURE = "distinct (compiled-evaluator bitmask before the op, op kind) pairs"
COMPONENTS = sc.COMPONENTS
ASSUMPTIONS = ["the order of PyGOM's event list is the order of insertion (constructor event=, transition=, birth_death=, then add_*)",
               "evaluation points x in (0.1,10)^n, t in [0,10], theta in (0.05,3)^p, away from singularities (denominators >= 1)",
               "the reference parses rates with sympy.sympify over an explicit symbol table"]


def generate(seed, tier):
    S = core.Streams(seed)
    rng = S("gen")
    model, names, params = gen.gen_model(rng, stochastic=False, p=rng.randint(1, 5))
    if model["processes"] and rng.random() < 0.1:
        import copy as _copy
        model["processes"].insert(rng.randint(0, len(model["processes"])), _copy.deepcopy(rng.choice(model["processes"])))
    m = len(model["processes"])
    order = list(range(m))
    if rng.random() < 0.5:
        rng.shuffle(order)
    kenv, batch = sc.k_plan(S("faults"), tier)
    ops = [{"op": "sym", "names": ["ode_eqn", "vmat", "rates", "pure", "reactant"]}]
    for _ in range(2):
        x, t, _th = gen.gen_point(rng, names, params)
        evs = list(sc.C01_EVALS)
        rng.shuffle(evs)
        ops.append({"op": "eval", "names": evs, "x": x, "t": t, "identity": True})
    if model.get("derived") and rng.random() < 0.5:
        # another model in the same process, spelled identically, with another definition of the derived parameter;
        # afterwards the first model is observed again
        srng = S("sched")
        alt = []
        for dn, eq in model["derived"]:
            a, b = srng.choice(params), srng.choice(params)
            eq2 = srng.choice(["%s+%s" % (a, b), "2*%s" % a, "%s*%s/(2+%s)" % (a, srng.choice(names), names[0])])
            if eq2 != eq:
                alt.append([dn, eq2])
        if alt:
            x, t, _ = gen.gen_point(srng, names, [])
            ops.append({"op": "sibling", "derived_alt": alt, "x": x, "t": t})
            evs = list(sc.C01_EVALS)
            srng.shuffle(evs)
            ops.append({"op": "eval", "names": evs, "x": x, "t": t, "identity": True})
            ops.append({"op": "sym", "names": ["ode_eqn", "rates"]})
    if rng.random() < 0.2 and params:
        ops.extend(sc.grow_ops(S("sched"), model, names, params, sc.C01_EVALS, count=rng.choice([1, 2]), with_identity=True))
        ops.append({"op": "sym", "names": ["ode_eqn", "vmat", "rates", "pure"]})
    theta = [round(rng.uniform(0.05, 3.0), 4) for _ in params]
    return {"engine": "session", "model": model, "order": order, "env": {"K": kenv}, "theta": theta,
            "ops": ops, "batch": batch}


def nontrivial(case):
    mdl = case["model"]
    if mdl.get("derived") or mdl.get("odes"):
        return True
    for pr in mdl.get("processes", []):
        if len(pr["trans"]) >= 2:
            return True
        for tr in pr["trans"]:
            if tr.get("mag", "1") not in ("1", "2", "3") or (tr["type"] == "B" and tr.get("birth_by") == "o"):
                return True
    return False


def execute(case):
    res = session.execute(case, PROP)
    res["nontrivial"] = nontrivial(case)
    return res


reductions = session.reductions

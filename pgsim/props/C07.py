"""C07 -- the gradient handed to optimisers is the derivative of cost (engine: solver)."""
from .. import core
from ..engines import solver
from .C06 import describe, COMPONENTS

PROP = "C07"
BUDGET = {"quick": 1200, "thorough": 25000}
ALARM_S = 400
RULE = ("as C06 plus target_state subsets and integrator methods; sensitivity, gradient, sensitivityIV and the columns of "
        "jac compared with Richardson-extrapolated central differences of PyGOM's own cost / costIV / residual in the free "
        "variables in the order supplied; non-unit weights only for Square and Normal; non-trivial = a gradient-type call "
        "on >= 2 free variables or with observed states not in model order; distinct = distinct case digests")
MEASURE = "distinct (loss class, #observed states, model order?, weights, spread, targets, I policy, op-kind sequence) tuples"
ASSUMPTIONS = ["oracle is PyGOM's own cost differentiated numerically (C06 pins cost to the reference)",
               "tolerance 2e-4 relative + 1e-5 of the gradient scale"]
KEEP = ("C07.",)


def generate(seed, tier):
    S = core.Streams(seed)
    return solver.gen_loss_case(S, tier, PROP, ["sensitivity", "sensitivity", "gradient", "sensitivityIV", "jac"])


def execute(case):
    res = solver.execute(case, keep_prefix=KEEP)
    nt = False
    order = [s["name"] for s in case["model"]["states"]]
    defs = {op["id"]: op for op in case["ops"] if op["op"] == "loss_new"}
    for op in case["ops"]:
        if op["op"] == "grad":
            d = defs[op["id"]]
            idx = [order.index(s) if s in order else -1 for s in d["states"]]
            if len(op["free"]) >= 2 or idx != sorted(idx):
                nt = True
    res["nontrivial"] = bool(nt and res["stats"].get("grad_calls", 0))
    res["measure"] = describe(case)
    return res


reductions = solver.reductions

"""C11 -- declared state limits are never violated in stochastic simulation (engine: jump; the
adversarial Poisson tail count is the point)."""
from .. import core
from ..engines import jump

PROP = "C11"
BUDGET = {"quick": 1200, "thorough": 30000}
ALARM_S = 900
RULE = ("seeded random event models with lower / upper / two-sided / absent limits per state (magnitudes 1-3, small "
        "populations so the limits bind) x {exact, adaptive tau, fixed tau} x epsilon x R seam (scripted stream with "
        "Poisson tail counts at quantile 1-1e-9..1-1e-15, tiny/huge/tied clocks; natural stream); raw paths, gridded "
        "output and direct calls of the step functions next to the limits; non-trivial = at least one step was "
        "rejected by the limit guard or a path stopped on an illegal step or >= 3 accepted steps with a limit "
        "within 3 of a visited state; distinct = distinct case digests")
MEASURE = "distinct (limit kinds present, algorithm, R mode, guard outcome) tuples"
COMPONENTS = jump_components = {
    "real": ["pygom.model.simulate.SimulateOde", "pygom.model.stochastic_simulation (firstReaction, tauLeap, _checkJump)",
             "pygom.model._tau_leap (rebuilt from the current .pyx)", "sympy lambdify"],
    "stub": ["R seam scripted sampler / recorder", "K seam (toolchain unavailable -> lambdify)"]}
ASSUMPTIONS = ["an absent lower limit is only generated for states that no event lowers (negative populations are outside "
               "the properties' domain)",
               "gridded tau-leap states are linear interpolations of in-limit states; limits are intervals, so they must stay inside"]
KEEP = ("C11.",)


def generate(seed, tier):
    S = core.Streams(seed)
    rng = S("c11")
    force = {"limits": True, "direct": rng.random() < 0.6}
    if rng.random() < 0.65:
        force["scripted"] = True
    if rng.random() < 0.6:
        force["exact"] = False
    if rng.random() < 0.35:
        force["grid"] = True
    if rng.random() < 0.15:
        force["mixed"] = True          # events + explicit ODE drift under tau-leap
        force["exact"] = False
    case = jump.gen_case(S, tier, PROP, force)
    # make the tail-count fault frequent in scripted tau runs
    r = case["env"]["R"]
    if r.get("mode") == "scripted":
        r.setdefault("faults", {})
        if rng.random() < 0.8:
            r["faults"]["tail_count"] = rng.choice([0.02, 0.05, 0.2])
        case["batch"] = "fault_injecting"
    return case


def execute(case):
    res = jump.execute(case, keep_prefix=KEEP)
    st = res["stats"]
    guard = "none"
    if st.get("tau_rejected") or st.get("direct_rejected"):
        guard = "rejected"
    if st.get("stop_illegal"):
        guard = "stopped"
    res["nontrivial"] = bool(guard != "none" or st.get("steps", 0) >= 3)
    kinds = sorted(set("none" if s.get("lim") is None else
                       ("upper" if s["lim"][0] is None else ("lower" if s["lim"][1] is None else "both"))
                       for s in case["model"]["states"]))
    op = case["ops"][0]
    alg = "exact" if op.get("exact") else ("tau_fixed" if op.get("pre_tau") else "tau_adaptive")
    res["measure"] = [[kinds, alg, case["env"]["R"]["mode"], guard]]
    return res


reductions = jump.reductions

"""Shared generator pieces for the session-engine properties."""
from .. import gen

C01_EVALS = ["ode", "vMat", "eventRateVector", "pureOdeVector"]
C03_EVALS = ["jacobian", "grad", "diff_jacobian", "grad_jacobian", "transitionJacobian", "transitionMean", "transitionVar"]
ALL_EVALS = C01_EVALS[:1] + C03_EVALS[:4] + C01_EVALS[1:] + C03_EVALS[4:]

COMPONENTS = {"real": ["pygom.model (BaseOdeModel, DeterministicOde, SimulateOde)", "pygom.model._model_verification.checkEquation",
                       "pygom.model.ode_utils.compileCode (every cascade level that succeeds runs the real sympy code)",
                       "sympy lambdify (numpy / mpmath / sympy)", "sympy autowrap + Cython + gcc when the plan says 'cython'"],
              "stub": ["K seam: InjectedFault raised at the autowrap/lambdify call boundary for levels the plan marks unavailable",
                       "f2py level can only fail in this sandbox (no distutils): naturally or injected"]}


def k_plan(frng, tier, allow_cython=True):
    """Compiler plan for one run: list of levels cycled over compile calls."""
    r = frng.random()
    if r < 0.25:
        return {"backend": "lambda"}, "fault_free"
    if r < 0.55:
        return {"plan": ["numpy"]}, "fault_injecting"
    k = frng.randint(2, 5)
    levels = [frng.choice(["numpy", "numpy", "mpmath", "sympy"]) for _ in range(k)]
    # a real C compile costs 3-4.5 s: sample it sparsely
    pc = 0.012 if tier == "quick" else 0.03
    if allow_cython and frng.random() < pc:
        levels[frng.randrange(k)] = "cython"
    return {"plan": levels}, "fault_injecting"


def asym_model(rng, stochastic=False, **kw):
    """A model with n != p and n != m where possible, so index slips cannot cancel."""
    for _ in range(20):
        model, names, params = gen.gen_model(rng, stochastic=stochastic, **kw)
        n, m, p = len(names), len(model["processes"]), len(params)
        if n != p and (m == 0 or n != m):
            return model, names, params
    return model, names, params


def grow_ops(rng, model, names, params, evals, count=1, with_identity=False):
    """A short history for the per-point properties: the model is extended (a process through an add_* route, or an
    explicit ODE term) with already-declared states and parameters AFTER its evaluators were used, and observed
    again in a random order - a model that was built in steps is a model too."""
    ops = []
    derived = [d[0] for d in model.get("derived", [])]
    use = list(params) + derived
    for _ in range(count):
        if rng.random() < 0.75 or not names:
            ev = gen.gen_event(rng, names, use, stochastic=False, symbolic_mag=True)
            route = gen.choose_route(rng, ev, allow_add=False)
            ops.append({"op": "add_process", "proc": ev, "route": "add_" + route})
        else:
            s_ = rng.choice(names)
            ops.append({"op": "add_ode", "state": s_, "eq": rng.choice(["-%s*%s" % (rng.choice(use), s_), "0.07*%s" % rng.choice(names), "-0.3"])})
        x, t, _ = gen.gen_point(rng, names, [])
        evs = list(evals)
        rng.shuffle(evs)
        k = rng.choice([1, 2, len(evs)])
        op = {"op": "eval", "names": evs[:k], "x": x, "t": t}
        if with_identity:
            op["identity"] = True
        ops.append(op)
    return ops

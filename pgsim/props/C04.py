"""C04 -- every simulated path is a legal walk of the model's events (engine: jump, R seam)."""
from .. import core
from ..engines import jump

PROP = "C04"
BUDGET = {"quick": 1400, "thorough": 30000}
ALARM_S = 900
ALARM_IS_VERDICT = True       # the property says that the simulation returns
RULE = ("seeded random event models (1-5 states, 1-5 events of 1-3 T/B/D transitions, integer magnitudes 1-3, "
        "optional limits, range-style names) x integer x0 x horizon x {exact, adaptive tau, fixed tau} x "
        "R seam {natural stream, scripted stream with tiny/huge/tied clocks and zero/tail Poisson counts}; "
        "non-trivial = the case produced >= 3 accepted steps in total; distinct = distinct case digests")
MEASURE = "distinct (n_states, n_events, algorithm, limits?, R mode, stop reason) tuples"
COMPONENTS = {"real": ["pygom.model.simulate.SimulateOde (solve_stochast, _jump)", "pygom.model.stochastic_simulation",
                       "pygom.model._tau_leap (rebuilt out of tree from the current .pyx)", "sympy lambdify", "numpy"],
              "stub": ["R seam: rexp/rpois recorder (natural) or inverse-CDF scripted sampler (scripted)",
                       "K seam: C/f2py toolchain reported unavailable so that PyGOM falls back to lambdify"]}
ASSUMPTIONS = ["models have bounded rates on the sampled domain and no explicit ODE terms",
               "t0 is passed as a numpy scalar (PyGOM's jump loop calls t0.tolist())",
               "a draw pattern other than first-reaction/Poisson tau-leap makes refinement unavailable, not a verdict"]
KEEP = ("C04.",)


def generate(seed, tier):
    S = core.Streams(seed)
    return jump.gen_case(S, tier, PROP)


def execute(case):
    res = jump.execute(case, keep_prefix=KEEP)
    op = case["ops"][0]
    st = res["stats"]
    stop = "horizon"
    for k in ("stop_extinct", "stop_illegal"):
        if st.get(k):
            stop = k
    res["measure"] = [[len(case["x0"]), len(case["model"]["processes"]),
                       "exact" if op["exact"] else ("tau_fixed" if op.get("pre_tau") else "tau_adaptive"),
                       any(s.get("lim") for s in case["model"]["states"]),
                       case["env"]["R"]["mode"], stop]]
    return res


reductions = jump.reductions

"""Command line: python -m pgsim.cli <C..|selftest-*> [quick|thorough] [--replay file]"""
import importlib
import os
import sys


def main(argv):
    if len(argv) < 1:
        print(__doc__)
        return 2
    name = argv[0]
    tier = os.environ.get("VERIF_TIER") or "quick"
    replay = None
    rest = argv[1:]
    i = 0
    while i < len(rest):
        a = rest[i]
        if a in ("quick", "thorough"):
            tier = a
        elif a == "--replay":
            replay = rest[i + 1]
            i += 1
        i += 1
    if os.environ.get("PYTHONHASHSEED") != "0" and not os.environ.get("PGSIM_NO_REEXEC"):
        env = dict(os.environ)
        env["PYTHONHASHSEED"] = "0"
        os.execve(sys.executable, [sys.executable, "-m", "pgsim.cli"] + argv, env)
    from . import core
    if name.startswith("selftest"):
        mod = importlib.import_module("pgsim.selftest")
        return mod.main(name, tier, rest)
    if name == "setup":
        from . import tauleap_build
        print(tauleap_build.ensure_built(core.src_root()))
        core.boot()
        print("setup ok")
        return 0
    try:
        mod = importlib.import_module("pgsim.props.%s" % name)
    except ModuleNotFoundError as e:
        print("unknown property %s (%s)" % (name, e))
        return 2
    try:
        return core.main_check(mod, tier, replay)
    except BaseException as e:          # anything unexpected is the harness's fault: never exit 1
        import traceback
        traceback.print_exc()
        print("HARNESS-ERROR property=%s unexpected %s" % (name, type(e).__name__))
        return 2


if __name__ == "__main__":
    sys.exit(main(sys.argv[1:]))

"""pgsim -- deterministic session simulator with fault injection for PyGOM (see /verif/DESIGN.md)."""

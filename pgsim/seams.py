"""The three environment seams (DESIGN section 2), installed by rebinding module attributes that
PyGOM looks up at call time.  No source hook in /repo is needed.

R  pygom.model.stochastic_simulation.rexp / .rpois
K  pygom.model.ode_utils.autowrap / .lambdify
I  pygom.model.ode_utils.scipy  (shim namespace with a proxy around scipy.integrate.ode)
"""
import math
import types

import numpy as np
import scipy.integrate
import scipy.sparse
import scipy.stats


class StepCap(BaseException):
    """Raised by the R seam when a single run consumes more draws than any legal path could need.
    Derived from BaseException so that no `except Exception` in the code under test can swallow it."""


class Explosion(BaseException):
    """The simulated population left the bounded-rate domain every property is stated on (a rate
    or Poisson mean beyond 1e9, or not finite).  The run is inconclusive, never a verdict."""


class InjectedFault(Exception):
    """The exception thrown at a seam boundary to simulate 'this level is unavailable'."""


# =================================================================================================
# R : random source of the jump process
# =================================================================================================
class RSeam(object):
    """mode 'natural': transparent recorder around the real utilR functions (numpy global stream).
    mode 'scripted': values by inverse CDF from simulator-chosen uniforms, with adversarial draws.

    log entries: ('e', rate, value) / ('p', mu, value).  Logging never draws randomness."""

    def __init__(self, ss_module, mode="natural", script_rng=None, faults=None, cap=None, sim_module=None):
        self.ss = ss_module
        # step counter: the jump loop looks its step functions up in pygom.model.simulate at call time; counting
        # them bounds loops that consume no random draw (a deterministic cap, independent of machine load)
        self.sim = sim_module
        self.steps = 0
        self._real_first = getattr(sim_module, "firstReaction", None) if sim_module is not None else None
        self._real_tau = getattr(sim_module, "tauLeap", None) if sim_module is not None else None
        self.mode = mode
        self.rng = script_rng
        self.faults = faults or {}
        self.cap = cap
        self.log = []
        self.fired = {}
        self._real_rexp = ss_module.rexp
        self._real_rpois = ss_module.rpois
        self._last_exp = None
        self.installed = False

    def install(self):
        self.ss.rexp = self.rexp
        self.ss.rpois = self.rpois
        if self.sim is not None and self._real_first is not None and self._real_tau is not None:
            self.sim.firstReaction = self._counted(self._real_first)
            self.sim.tauLeap = self._counted(self._real_tau)
        self.installed = True
        return self

    def remove(self):
        self.ss.rexp = self._real_rexp
        self.ss.rpois = self._real_rpois
        if self.sim is not None and self._real_first is not None and self._real_tau is not None:
            self.sim.firstReaction = self._real_first
            self.sim.tauLeap = self._real_tau
        self.installed = False

    def _counted(self, f):
        seam = self

        def step(*a, **k):
            seam.steps += 1
            if seam.cap is not None and seam.steps > seam.cap:
                raise StepCap("more than %d steps in one run" % seam.cap)
            return f(*a, **k)
        step.__name__ = getattr(f, "__name__", "step")
        return step

    def __enter__(self):
        return self.install()

    def __exit__(self, *a):
        self.remove()

    def reset_log(self):
        self.log = []
        self.steps = 0
        self._last_exp = None

    def reseed(self, seed):
        """Restart the stream: scripted -> new script PRNG; natural -> np.random.seed (PyGOM's
        documented interface for reproducibility)."""
        import random
        if self.mode == "scripted":
            self.rng = random.Random(seed)
        else:
            np.random.seed(int(seed) % (2 ** 32))
        self._last_exp = None

    def _count(self, k):
        self.fired[k] = self.fired.get(k, 0) + 1

    def _capcheck(self):
        if self.cap is not None and len(self.log) > self.cap:
            raise StepCap("more than %d draws in one run" % self.cap)

    # -- exponential clocks ----------------------------------------------------------------------
    def rexp(self, n, rate=1.0, seed=None):
        self._capcheck()
        if self.mode == "natural":
            v = self._real_rexp(n, rate, seed=seed)
            self.log.append(("e", float(rate), float(v)))
            return v
        assert n == 1
        if not (rate == rate) or rate > 1e9:
            raise Explosion("clock rate %r" % rate)
        u = self.rng.random()
        f = self.faults
        r = self.rng.random()
        val = None
        acc = f.get("tiny_clock", 0.0)
        if r < acc:
            u = 10.0 ** self.rng.uniform(-9, -5)
            self._count("R.tiny_clock")
        elif r < acc + f.get("huge_clock", 0.0):
            u = 1.0 - 10.0 ** self.rng.uniform(-12, -9)
            self._count("R.huge_clock")
        elif r < acc + f.get("huge_clock", 0.0) + f.get("tie", 0.0) and self._last_exp is not None:
            val = self._last_exp           # bit-equal to the previous clock: a legal tie
            self._count("R.tie")
        if val is None:
            u = min(max(u, 1e-300), 1.0 - 1e-16)
            val = -math.log1p(-u) / float(rate)
        self._last_exp = val
        self.log.append(("e", float(rate), float(val)))
        return np.float64(val)

    # -- Poisson counts ----------------------------------------------------------------------------
    def rpois(self, n, mu=1.0, seed=None):
        self._capcheck()
        if self.mode == "natural":
            v = self._real_rpois(n, mu, seed=seed)
            self.log.append(("p", float(mu), int(v)))
            return v
        assert n == 1
        mu = float(mu)
        if not (mu == mu) or mu > 1e9:
            raise Explosion("Poisson mean %r" % mu)
        f = self.faults
        r = self.rng.random()
        if mu <= 0.0:
            val = 0
        elif r < f.get("zero_count", 0.0):
            val = 0                                       # P(0) = exp(-mu) > 0: in the support
            self._count("R.zero_count")
        elif r < f.get("zero_count", 0.0) + f.get("tail_count", 0.0):
            q = 1.0 - 10.0 ** self.rng.uniform(-15, -9)
            val = int(scipy.stats.poisson.ppf(q, mu))
            self._count("R.tail_count")
        else:
            val = int(scipy.stats.poisson.ppf(min(self.rng.random(), 1 - 1e-16), mu))
        self.log.append(("p", mu, val))
        return np.int64(val)


# =================================================================================================
# K : expression compiler cascade
# =================================================================================================
class KSeam(object):
    """Decides, per compile call, which cascade level is allowed to succeed.

    plan: callable(call_index) -> level in
        'cython'  real autowrap(backend='Cython')        (slow: external C compiler)
        'numpy'   cython fails, f2py fails, lambdify(numpy) succeeds
        'mpmath'  ... lambdify(numpy) fails too, lambdify(mpmath) succeeds
        'sympy'   ... mpmath fails too, lambdify(sympy) succeeds
    A 'fail' is an InjectedFault raised at the call boundary; every level that succeeds runs the real
    sympy code."""

    LEVELS = ("cython", "numpy", "mpmath", "sympy")

    def __init__(self, ode_utils_module, plan):
        self.ou = ode_utils_module
        self.plan = plan
        self._real_autowrap = ode_utils_module.autowrap
        self._real_lambdify = ode_utils_module.lambdify
        self.calls = 0          # number of compileExpr invocations seen (first autowrap/lambdify per call)
        self.fired = {}
        self.levels_used = {}
        self._level = None
        self._stage = None

    def install(self):
        self.ou.autowrap = self.autowrap
        self.ou.lambdify = self.lambdify
        return self

    def remove(self):
        self.ou.autowrap = self._real_autowrap
        self.ou.lambdify = self._real_lambdify

    def __enter__(self):
        return self.install()

    def __exit__(self, *a):
        self.remove()

    def _count(self, k):
        self.fired[k] = self.fired.get(k, 0) + 1

    def _begin(self):
        self._level = self.plan(self.calls)
        self.calls += 1
        self._stage = 0

    def autowrap(self, expr=None, args=None, backend="f2py", **kw):
        b = str(backend).lower()
        if b == "cython":
            self._begin()                       # first thing compileExpr tries for backend 'cython'
            if self._level == "cython":
                f = self._real_autowrap(expr=expr, args=args, backend="Cython", **kw)
                self.levels_used["cython"] = self.levels_used.get("cython", 0) + 1
                return f
            self._count("K.cython_fail")
            raise InjectedFault("simulated: C toolchain unavailable")
        # f2py can not succeed in this sandbox; it fails, naturally or injected
        self._count("K.f2py_fail")
        raise InjectedFault("simulated: f2py unavailable")

    def lambdify(self, args=None, expr=None, modules=None, **kw):
        if self._stage is None:
            self._begin()                       # backend == 'lambda': no autowrap call precedes
            if self._level == "cython":
                self._level = "numpy"
        level = self._level
        if modules == "numpy":
            if level in ("mpmath", "sympy"):
                self._count("K.numpy_fail")
                raise InjectedFault("simulated: numpy lambdify failed")
            return self._done("numpy", self._real_lambdify(args=args, expr=expr, modules="numpy", **kw))
        if modules == "mpmath":
            if level == "sympy":
                self._count("K.mpmath_fail")
                raise InjectedFault("simulated: mpmath lambdify failed")
            return self._done("mpmath", self._real_lambdify(args=args, expr=expr, modules="mpmath", **kw))
        return self._done("sympy", self._real_lambdify(args=args, expr=expr, modules=modules, **kw))

    def _done(self, level, f):
        self.levels_used[level] = self.levels_used.get(level, 0) + 1
        self._stage = None
        return f


# =================================================================================================
# I : ODE integrator (identity of the returned state array is simulated, numerics are real)
# =================================================================================================
class ISeam(object):
    def __init__(self, ode_utils_module, policy="native"):
        self.ou = ode_utils_module
        self.policy = policy
        self._real = ode_utils_module.scipy
        self.calls = []         # ('set_integrator', name, method) / ('init', t0) / ('integrate', t)
        self.fired = {}
        self.handed = []        # (array object, snapshot) for every y handed out
        seam = self

        class SimOde(object):
            def __init__(self, f, jac=None):
                self._r = scipy.integrate.ode(f, jac)
                self._buf = None

            def set_integrator(self, name, **kw):
                seam.calls.append(("set_integrator", name, kw.get("method")))
                self._r.set_integrator(name, **kw)
                return self

            def set_f_params(self, *a):
                self._r.set_f_params(*a)
                return self

            def set_jac_params(self, *a):
                self._r.set_jac_params(*a)
                return self

            def set_initial_value(self, y, t=0.0):
                seam.calls.append(("init", float(t)))
                self._r.set_initial_value(y, t)
                self._buf = None
                return self

            def integrate(self, t, step=False, relax=False):
                seam.calls.append(("integrate", float(t)))
                self._r.integrate(t, step, relax)
                self._fresh = True
                return self.y

            def successful(self):
                return self._r.successful()

            @property
            def t(self):
                return self._r.t

            @property
            def y(self):
                real = self._r.y
                if seam.policy == "native":
                    out = real
                elif seam.policy == "fresh":
                    out = np.array(real, copy=True)
                else:                                   # 'reuse': one persistent buffer per integrator
                    if self._buf is None or self._buf.shape != np.shape(real):
                        self._buf = np.array(real, copy=True)
                    else:
                        self._buf[...] = real
                        seam.fired["I.buffer_reuse"] = seam.fired.get("I.buffer_reuse", 0) + 1
                    out = self._buf
                return out

        self.SimOde = SimOde
        self.shim = types.SimpleNamespace(
            integrate=types.SimpleNamespace(ode=SimOde, odeint=scipy.integrate.odeint),
            sparse=scipy.sparse,
            linalg=getattr(self._real, "linalg", None),
        )

    def install(self):
        self.ou.scipy = self.shim
        return self

    def remove(self):
        self.ou.scipy = self._real

    def __enter__(self):
        return self.install()

    def __exit__(self, *a):
        self.remove()

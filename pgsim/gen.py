"""Seeded generators of model definitions (JSON) over the grammar of DESIGN section 3.

All randomness comes from the random.Random instances handed in (sub-streams of the run seed).
"""

STATE_POOLS = [
    ["S", "I", "R"], ["S", "E", "I", "R"], ["A", "B", "C", "D", "F"], ["X", "Y"], ["X", "Y", "Z"],
    ["U"], ["S", "I"], ["P", "Q", "W", "Z"], ["N1", "N2", "N3"], ["Sa", "Ib", "Rc", "Vd"],
]
PARAM_POOL = ["beta", "gamma", "mu", "kappa", "alpha", "delta", "rho", "sigma", "nu", "eps", "k1", "k2", "B0"]


def pick_states(rng, n=None, allow_range=True):
    """Return (state declaration entries, expanded names)."""
    if allow_range and rng.random() < 0.12:
        k = n if n else rng.randint(2, 4)
        base = rng.choice(["y", "x", "c"])
        lo = rng.choice([0, 1])
        if rng.random() < 0.5 or k < 2:
            decl = ["%s%d:%d" % (base, lo, lo + k)]
            names = ["%s%d" % (base, lo + i) for i in range(k)]
        else:
            decl = ["Q", "%s%d:%d" % (base, lo, lo + k - 1)]
            names = ["Q"] + ["%s%d" % (base, lo + i) for i in range(k - 1)]
        return decl, names
    pools = [p for p in STATE_POOLS if n is None or len(p) >= n]
    pool = rng.choice(pools)
    k = n if n else len(pool)
    names = pool[:k]
    return list(names), list(names)


SHORT_PARAM_POOL = ["k", "v", "r", "q", "p", "w", "m", "g"]      # one-letter names (none is a state name here)


def pick_params(rng, p):
    if rng.random() < 0.15:
        # one-letter parameter names: the kind that collides with a loop variable or a local of the library
        short = rng.sample(SHORT_PARAM_POOL, min(p, rng.randint(1, 3)))
        rest = rng.sample(PARAM_POOL, p - len(short))
        out = short + rest
        rng.shuffle(out)
        return out
    return rng.sample(PARAM_POOL, p)


def rate_expr(rng, states, params, origin_states=None, stochastic=False, allow_time=True, popN=None,
              sublinear=False):
    """A rate that is non-negative and bounded on non-negative bounded states."""
    par = lambda: rng.choice(params) if params else repr(round(rng.uniform(0.1, 2.0), 2))
    X = rng.choice(origin_states) if origin_states else rng.choice(states)
    others = [s for s in states if s != X]
    Y = rng.choice(others) if others else X
    kinds = ["linear", "linear", "mass", "massN", "sat1", "satq", "expx", "xexp", "const", "num"]
    if allow_time:
        kinds.append("periodic")
    if origin_states and rng.random() < 0.85:
        kinds = [k for k in kinds if k not in ("const", "expx")]
    if sublinear:       # an event that adds individuals must not grow faster than linearly (no blow-up)
        kinds = [k for k in kinds if k not in ("mass", "massN")] or ["linear"]
    k = rng.choice(kinds)
    if k == "const":
        return par()
    if k == "num":
        return "%s*%s" % (repr(round(rng.uniform(0.05, 1.5), 3)), X)
    if k == "linear":
        return "%s*%s" % (par(), X)
    if k == "mass":
        if stochastic:
            return "%s*%s*%s/%d" % (par(), X, Y, popN or 50)
        return "%s*%s*%s" % (par(), X, Y)
    if k == "massN":
        if stochastic or rng.random() < 0.5:
            return "%s*%s*%s/%d" % (par(), X, Y, popN or 50)
        return "%s*%s*%s/(1+%s)" % (par(), X, Y, "+".join(states))
    if k == "sat1":
        return "%s*%s/(1+%s)" % (par(), X, X)
    if k == "satq":
        return "%s*%s/(%s+1+%s)" % (par(), X, par(), Y)
    if k == "expx":
        return "%s*exp(-%s/%d)" % (par(), X, popN or 5)
    if k == "xexp":
        return "%s*%s*exp(-%s*%s/%d)" % (par(), X, par(), Y, popN or 5)
    if k == "periodic":
        return "%s*(1+0.5*cos(2*t))*%s" % (par(), X)
    raise ValueError(k)


def gen_event(rng, states, params, stochastic=False, max_trans=3, symbolic_mag=False, popN=None,
              allow_time=True):
    n = len(states)
    ntr = 1 if n == 1 and rng.random() < 0.6 else rng.choice([1, 1, 1, 2, 2, 3][:max(1, min(6, 2 * max_trans))])
    ntr = min(ntr, max_trans)
    trans = []
    origins = []
    for _ in range(ntr):
        types = ["T", "T", "T", "B", "D"] if n >= 2 else ["B", "D"]
        ty = rng.choice(types)
        mag = "1"
        r = rng.random()
        if r < 0.25:
            mag = str(rng.choice([2, 3]))
        elif symbolic_mag and r < 0.4 and params:
            mag = rng.choice(params)
        elif symbolic_mag and r < 0.45:
            mag = repr(round(rng.uniform(0.5, 2.5), 2))
        if ty == "T":
            o, d = rng.sample(states, 2)
            trans.append({"type": "T", "o": o, "d": d, "mag": mag})
            origins.append(o)
        elif ty == "B":
            d = rng.choice(states)
            trans.append({"type": "B", "d": d, "mag": mag, "birth_by": rng.choice(["o", "d"])})
        else:
            o = rng.choice(states)
            trans.append({"type": "D", "o": o, "mag": mag})
            origins.append(o)
    grows = any(tr["type"] == "B" for tr in trans)
    rate = rate_expr(rng, states, params, origin_states=origins or None, stochastic=stochastic,
                     allow_time=allow_time, popN=popN, sublinear=(stochastic and grows))
    return {"rate": rate, "trans": trans}


def _display_names(rng, ids, others):
    out = {}
    for i, nm in enumerate(ids):
        r = rng.random()
        later = [o for o in ids[i + 1:]]
        if r < 0.35 and later:
            out[nm] = rng.choice(later)                       # shown under the identifier of a later variable
        elif r < 0.5:
            out[nm] = rng.choice([o for o in others if o != nm] or [nm + "_lbl"])
        elif r < 0.8:
            out[nm] = rng.choice(["%s_lbl" % nm, "%s rate" % nm, nm.upper() + "0"])
    return out


def choose_route(rng, pr, allow_add=True):
    from .build import legacy_ok
    opts = ["event", "event", "event_eq"]
    if len(pr["trans"]) == 1:
        opts.append("trans_event")
    if legacy_ok(pr):
        opts += ["legacy", "legacy"]
    r = rng.choice(opts)
    if allow_add and rng.random() < 0.25:
        r = "add_" + r
    return r


def gen_model(rng, stochastic=False, n=None, m=None, p=None, with_odes=None, with_derived=None,
              limits=False, popN=None, symbolic_mag=None, allow_time=True, allow_range=True):
    decl, names = pick_states(rng, n, allow_range=allow_range)
    n = len(names)
    p = p if p is not None else rng.randint(1, 5)
    params = pick_params(rng, p)
    model = {"states": [{"name": d} for d in decl], "params": params}
    model["state_decl"] = "list"
    if not limits and len(decl) == len(names) and rng.random() < 0.3:
        model["state_decl"] = "string"
        model["state_sep"] = rng.choice([" ", ",", ", "])
    if rng.random() < 0.3:
        model["param_decl"] = "string"
        model["param_sep"] = rng.choice([" ", ",", ", "])
    # ODEVariable objects whose display name differs from the identifier; some display names are the
    # identifier of another variable (a later parameter, a state), which only a lookup by identifier survives
    if rng.random() < 0.22:
        model["param_decl"] = "objects"
        model["param_display"] = _display_names(rng, params, list(params) + list(names))
    if not limits and len(decl) == len(names) and rng.random() < 0.15:
        model["state_decl"] = "objects"
        model["state_display"] = _display_names(rng, names, list(names) + list(params))
    derived = []
    use = list(params)
    if with_derived is None:
        with_derived = (not stochastic) and rng.random() < 0.35
    if with_derived and params:
        dn = rng.choice(["lam", "foi", "Rzero", "dd"])
        a = rng.choice(params)
        b = rng.choice(params)
        form = rng.choice(["%s*%s" % (a, b), "%s/(1+%s)" % (a, b), "%s*(1+0.5*cos(2*t))" % a if allow_time else "%s+%s" % (a, b),
                           "%s*%s/(1+%s)" % (a, rng.choice(names), "+".join(names))])
        derived.append([dn, form])
        use.append(dn)
    if derived:
        model["derived"] = derived
    if m is None:
        m = rng.randint(1 if stochastic else 0, 5)
    if symbolic_mag is None:
        symbolic_mag = not stochastic
    procs = []
    for _ in range(m):
        ev = gen_event(rng, names, use, stochastic=stochastic, symbolic_mag=symbolic_mag, popN=popN,
                       allow_time=allow_time)
        ev["route"] = choose_route(rng, ev)
        procs.append(ev)
    model["processes"] = procs
    if with_odes is None:
        with_odes = (not stochastic) and (rng.random() < 0.35 or m == 0)
    if with_odes:
        odes = []
        for s in rng.sample(names, rng.randint(1, min(2, n))):
            eq = rng.choice(["-%s*%s" % (rng.choice(use), s),
                             "%s - 0.1*%s" % (rng.choice(use), s),
                             "-0.2*%s*%s/(1+%s)" % (s, rng.choice(names), s),
                             "%s*exp(-%s)" % (rng.choice(use), s)])
            odes.append({"state": s, "eq": eq})
            if rng.random() < 0.3:        # a second term for the same state: terms must add up
                odes.append({"state": s, "eq": "0.05*%s" % rng.choice(names)})
        model["odes"] = odes
    return model, names, params


def gen_point(rng, names, params, tmax=10.0):
    x = [round(rng.uniform(0.1, 10.0), 4) for _ in names]
    th = [round(rng.uniform(0.05, 3.0), 4) for _ in params]
    t = round(rng.uniform(0.0, tmax), 4)
    return x, t, th

"""Core of the session simulator: seeds, boot, worker pool, event-log digests, violation handling
(minimise -> replay in a fresh interpreter -> report), known findings, evidence files."""
import contextlib
import faulthandler
import hashlib
import importlib
import io
import json
import os
import random
import signal
import subprocess
import sys
import time
import traceback
import warnings
from concurrent.futures import ProcessPoolExecutor
import multiprocessing

VERIF = os.path.dirname(os.path.dirname(os.path.abspath(__file__)))
DEFAULT_SEED = 20260927
SCHEMA = "/root/.vp/EVIDENCE.schema.json"


class HarnessError(Exception):
    """Anything that is the machinery's own fault; never reported as a VIOLATION (exit 2)."""


# ---------------------------------------------------------------------------------------------------
# seeds
# ---------------------------------------------------------------------------------------------------
def verif_seed():
    try:
        return int(os.environ.get("VERIF_SEED", DEFAULT_SEED))
    except ValueError:
        return DEFAULT_SEED


def run_seed(prop, tier, i, base=None):
    base = verif_seed() if base is None else base
    h = hashlib.sha256(("%d:%s:%s:%d" % (base, prop, tier, i)).encode()).hexdigest()
    return int(h[:16], 16)


class Streams(object):
    """Named sub-streams derived from one run seed."""

    def __init__(self, seed):
        self.seed = seed
        self._s = {}

    def __call__(self, name):
        if name not in self._s:
            h = hashlib.sha256(("%d/%s" % (self.seed, name)).encode()).hexdigest()
            self._s[name] = random.Random(int(h[:16], 16))
        return self._s[name]


# ---------------------------------------------------------------------------------------------------
# boot: import the code under test from the current working tree (or a scratch copy)
# ---------------------------------------------------------------------------------------------------
_PG = None


class PG(object):
    pass


def src_root():
    return os.environ.get("PYGOM_VERIF_SRC") or "/repo/src"


def boot():
    """Import PyGOM from src_root() with the out-of-tree _tau_leap injected.  Idempotent."""
    global _PG
    if _PG is not None:
        return _PG
    root = src_root()
    if not os.path.isdir(os.path.join(root, "pygom")):
        raise HarnessError("no pygom package under %s" % root)
    if root not in sys.path or sys.path[0] != root:
        sys.path.insert(0, root)
    warnings.filterwarnings("ignore")
    import logging
    logging.disable(logging.CRITICAL)
    os.environ.setdefault("MPLBACKEND", "Agg")
    from . import tauleap_build
    tauleap_build.inject(root)
    import pygom  # noqa
    import pygom.model as pm
    import pygom.model.ode_utils as ou
    import pygom.model.stochastic_simulation as ss
    import pygom.model.simulate as sim
    import pygom.loss as pl
    import pygom.utilR as ur
    here = os.path.realpath(os.path.dirname(pygom.__file__))
    if not here.startswith(os.path.realpath(root)):
        raise HarnessError("pygom imported from %s, expected under %s" % (here, root))
    pg = PG()
    pg.root = os.path.realpath(root)
    pg.pygom = pygom
    pg.pm = pm
    pg.ou = ou
    pg.ss = ss
    pg.sim = sim
    pg.pl = pl
    pg.ur = ur
    pg.SimulateOde = pm.SimulateOde
    pg.DeterministicOde = pm.DeterministicOde
    pg.Transition = pm.Transition
    pg.Event = pm.Event
    pg.TransitionType = pm.TransitionType
    pg.compileCode = ou.compileCode
    _PG = pg
    return pg


@contextlib.contextmanager
def quiet():
    """PyGOM prints from inside its loops ('Illegal jump ...'); keep worker output clean."""
    old = sys.stdout
    sys.stdout = io.StringIO()
    try:
        yield
    finally:
        sys.stdout = old


# ---------------------------------------------------------------------------------------------------
# exception classification
# ---------------------------------------------------------------------------------------------------
def pygom_frame(exc):
    """Innermost traceback frame that lies in the code under test, as 'file.py:function', or None."""
    root = boot().root
    hit = None
    tb = exc.__traceback__
    while tb is not None:
        fn = os.path.realpath(tb.tb_frame.f_code.co_filename)
        if fn.startswith(root):
            hit = "%s:%s" % (os.path.basename(fn), tb.tb_frame.f_code.co_name)
        tb = tb.tb_next
    return hit


class NonNumeric(Exception):
    """The code under test returned something that is not an array of numbers (e.g. an unevaluated
    sympy expression): attributable to it, not to the harness."""


def num_array(v):
    import numpy as np
    try:
        return np.asarray(v, float)
    except (TypeError, ValueError) as e:
        raise NonNumeric("result is not numeric: %r (%s)" % (v, e))


def crash_failure(prop, exc, step, what):
    """Turn an exception raised while executing a *valid* operation into a failure record, or
    re-raise it as a HarnessError when no frame of the code under test is involved."""
    where = pygom_frame(exc)
    tb = exc.__traceback__
    while tb is not None and tb.tb_next is not None:
        tb = tb.tb_next
    raised_in = os.path.realpath(tb.tb_frame.f_code.co_filename) if tb is not None else ""
    in_harness = raised_in.startswith(os.path.join(VERIF, "pgsim")) and type(exc).__name__ != "InjectedFault"
    if isinstance(exc, NonNumeric):
        return fail("%s.value.nonnumeric" % prop, step, "%s: %s" % (what, str(exc)[:300]))
    if where is None or isinstance(exc, HarnessError) or in_harness:
        raise HarnessError("harness exception during %s: %r\n%s" % (
            what, exc, "".join(traceback.format_exception(type(exc), exc, exc.__traceback__))))
    return fail("%s.crash.%s@%s" % (prop, type(exc).__name__, where.split(":")[1]), step,
                "%s raised %s: %s" % (what, type(exc).__name__, str(exc)[:300]))


def fail(oracle, step, detail):
    return {"oracle": oracle, "step": step, "detail": detail}


# ---------------------------------------------------------------------------------------------------
# digests
# ---------------------------------------------------------------------------------------------------
def canon(o, digits=None):
    """Canonical JSON-able form: numpy -> lists, floats optionally rounded to `digits` significant."""
    import numpy as np
    if isinstance(o, dict):
        return {str(k): canon(v, digits) for k, v in sorted(o.items(), key=lambda kv: str(kv[0]))}
    if isinstance(o, (list, tuple)):
        return [canon(v, digits) for v in o]
    if isinstance(o, np.ndarray):
        return canon(o.tolist(), digits)
    if isinstance(o, (np.integer,)):
        return int(o)
    if isinstance(o, (float, np.floating)):
        f = float(o)
        if digits is None or f != f or f in (float("inf"), float("-inf")):
            return repr(f)
        return "%.*e" % (digits - 1, f)
    if isinstance(o, (bool, int, str)) or o is None:
        return o
    return repr(o)


def digest(o, digits=None):
    return hashlib.sha256(json.dumps(canon(o, digits), sort_keys=True).encode()).hexdigest()[:16]


def case_digest(case):
    c = dict(case)
    c.pop("run_seed", None)
    c.pop("index", None)
    return digest(c)


# ---------------------------------------------------------------------------------------------------
# worker pool
# ---------------------------------------------------------------------------------------------------
class RunTimeout(BaseException):
    pass


def _alarm(signum, frame):
    raise RunTimeout()


def limit_memory():
    """Address-space limit per process: a run-away allocation in the code under test becomes a MemoryError inside
    that run (a verdict candidate like any other exception) instead of a worker killed by the kernel."""
    try:
        import resource
        lim = int(float(os.environ.get("PGSIM_MEM_GB", "8")) * 2 ** 30)
        soft, hard = resource.getrlimit(resource.RLIMIT_AS)
        if hard == resource.RLIM_INFINITY or lim < hard:
            resource.setrlimit(resource.RLIMIT_AS, (lim, hard))
    except Exception:
        pass


def _worker(args):
    modname, tier, idxs, base, alarm_s, keep_cases = args
    mod = importlib.import_module(modname)
    boot()
    limit_memory()
    faulthandler.enable()
    out = []
    for i in idxs:
        seed = run_seed(mod.PROP, tier, i, base)
        try:
            case = mod.generate(seed, tier, i) if getattr(mod, "GENERATE_WITH_INDEX", False) else mod.generate(seed, tier)
        except Exception as e:
            return {"harness_error": "generator: " + "".join(traceback.format_exception(type(e), e, e.__traceback__)),
                    "index": i, "seed": seed}
        case["property"] = mod.PROP
        case["run_seed"] = seed
        case["index"] = i
        t0 = time.time()
        signal.signal(signal.SIGALRM, _alarm)
        signal.alarm(alarm_s)
        harness = None
        try:
            with quiet():
                res = mod.execute(case)
        except RunTimeout:
            if getattr(mod, "ALARM_IS_VERDICT", False):
                # the property itself says that the call returns (C04)
                res = {"failures": [fail(mod.PROP + ".hang.alarm", -1, "run exceeded %d s wall clock" % alarm_s)],
                       "stats": {}, "log": ["ALARM"]}
            else:
                # slow (symbolic differentiation of a large rational system, a stiff integration ...): whether a call
                # returns in time is not what this property states - inconclusive, counted
                res = {"failures": [], "stats": {"alarm_inconclusive": 1}, "log": ["ALARM"]}
        except HarnessError as e:
            harness = str(e)
        except Exception as e:   # anything else escaping execute() is the harness's fault ...
            if type(e).__name__ == "RefUndefined":
                # ... except a generated point outside the reference's domain: the run is void (counted)
                res = {"failures": [], "stats": {"reference_undefined": 1}, "log": ["REF-UNDEFINED"]}
            else:
                harness = "".join(traceback.format_exception(type(e), e, e.__traceback__))
        finally:
            signal.alarm(0)
        if harness is not None:
            return {"harness_error": harness, "index": i, "seed": seed}
        rec = {"index": i, "seed": seed, "wall": time.time() - t0, "pred": list(idxs[:idxs.index(i)]),
               "failures": res.get("failures", []),
               "stats": res.get("stats", {}),
               "faults": res.get("faults", {}),
               "nontrivial": bool(res.get("nontrivial", False)),
               "measure": res.get("measure", []),
               "digest": digest(res.get("log", [])),
               "digest12": digest(res.get("log", []), 12),
               "cdigest": case_digest(case),
               "batch": case.get("batch", "fault_free")}
        if "payload" in res:
            rec["payload"] = res["payload"]
        if rec["failures"] or i < keep_cases:
            rec["case"] = case
        out.append(rec)
    return out


def run_batch(mod, tier, count, workers=None, base=None, alarm_s=600, keep_cases=3, start=0):
    workers = workers or int(os.environ.get("VERIF_WORKERS", "16"))
    idx = list(range(start, start + count))
    nchunk = max(1, min(len(idx), workers * 4))
    chunks = [idx[k::nchunk] for k in range(nchunk)]
    base = verif_seed() if base is None else base
    args = [(mod.__name__, tier, c, base, alarm_s, keep_cases) for c in chunks if c]
    recs = []
    if workers == 1:
        results = [_worker(a) for a in args]
    else:
        ctx = multiprocessing.get_context("fork")
        with ProcessPoolExecutor(max_workers=workers, mp_context=ctx) as ex:
            results = list(ex.map(_worker, args))
    for r in results:
        if isinstance(r, dict) and "harness_error" in r:
            raise HarnessError("run %s (seed %s): %s" % (r["index"], r["seed"], r["harness_error"]))
        recs.extend(r)
    recs.sort(key=lambda r: r["index"])
    return recs


# ---------------------------------------------------------------------------------------------------
# known findings
# ---------------------------------------------------------------------------------------------------
def load_known():
    p = os.path.join(VERIF, "known_findings.json")
    if not os.path.exists(p):
        return []
    with open(p) as f:
        return json.load(f).get("entries", [])


def match_known(prop, oracle, case, mod):
    for e in load_known():
        if e.get("kind") != "finding" or e.get("property") != prop:
            continue
        if oracle not in e.get("oracle_ids", []):
            continue
        pred = e.get("predicate")
        if pred and hasattr(mod, "known_predicate"):
            if not mod.known_predicate(pred, case):
                continue
        return e
    return None


# ---------------------------------------------------------------------------------------------------
# minimisation (delta debugging on the JSON case)
# ---------------------------------------------------------------------------------------------------
def fails_with(mod, case, oracle):
    try:
        with quiet():
            res = mod.execute(case)
    except HarnessError:
        return False
    except Exception:
        return False
    return any(f["oracle"] == oracle for f in res.get("failures", []))


def minimise(mod, case, oracle, budget_s=90, max_exec=400):
    t0 = time.time()
    n = 0
    cur = case
    if not hasattr(mod, "reductions"):
        return cur, 0
    improved = True
    while improved and time.time() - t0 < budget_s and n < max_exec:
        improved = False
        for cand in mod.reductions(cur):
            if time.time() - t0 > budget_s or n >= max_exec:
                break
            n += 1
            signal.signal(signal.SIGALRM, _alarm)
            signal.alarm(120)
            try:
                ok = fails_with(mod, cand, oracle)
            except RunTimeout:
                ok = False
            finally:
                signal.alarm(0)
            if ok:
                cur = cand
                improved = True
                break
    return cur, n


# ---------------------------------------------------------------------------------------------------
# the check driver
# ---------------------------------------------------------------------------------------------------
def replay_file(mod, path):
    """Execute a case file; print the failures; exit status 1 iff any failure is reported."""
    with open(path) as f:
        case = json.load(f)
    boot()
    limit_memory()
    if "sequence" in case:
        # several runs executed one after the other in ONE process (state that the code under test keeps at
        # module or class level travels from one to the next); the verdict is that of the last one
        res = {"failures": [], "log": []}
        for c in case["sequence"]:
            with quiet():
                res = mod.execute(c)
    else:
        signal.signal(signal.SIGALRM, _alarm)
        signal.alarm(int(getattr(mod, "ALARM_S", 600)))
        try:
            with quiet():
                res = mod.execute(case)
        except RunTimeout:
            res = {"failures": [fail(mod.PROP + ".hang.alarm", -1, "run exceeded %d s wall clock" % getattr(mod, "ALARM_S", 600))]
                   if getattr(mod, "ALARM_IS_VERDICT", False) else [], "log": ["ALARM"]}
        finally:
            signal.alarm(0)
    for f_ in res.get("failures", []):
        print("REPLAY-FAILURE oracle=%s step=%s %s" % (f_["oracle"], f_["step"], f_["detail"]))
    print("REPLAY-DIGEST %s" % digest(res.get("log", [])))
    return 1 if res.get("failures") else 0


def confirm_fresh(prop, path, oracle):
    """Re-execute the minimised case in a fresh interpreter; True iff the same oracle fails there."""
    env = dict(os.environ)
    env["PYTHONHASHSEED"] = "0"
    try:
        p = subprocess.run([sys.executable, "-m", "pgsim.cli", prop, "--replay", path], cwd=VERIF, env=env,
                           stdout=subprocess.PIPE, stderr=subprocess.STDOUT, timeout=3600)
    except subprocess.TimeoutExpired:
        return False, "replay did not finish within 3600 s"
    out = p.stdout.decode(errors="replace")
    return ("oracle=%s " % oracle) in out, out


def handle_failures(mod, recs, max_report=3):
    """Group failures by oracle id, minimise one case per oracle, confirm, classify.
    Returns (violations, known_reported, nondeterministic)."""
    prop = mod.PROP
    by_oracle = {}
    for r in recs:
        for f_ in r["failures"]:
            by_oracle.setdefault(f_["oracle"], []).append((r, f_))
    violations, known, nondet = [], [], []
    for rank, oracle in enumerate(sorted(by_oracle)):
        lst = by_oracle[oracle]
        r, f_ = min(lst, key=lambda rf: len(json.dumps(canon(rf[0]["case"]))))
        case = r["case"]
        if rank < max_report:
            small, nexec = minimise(mod, case, oracle)
        else:                       # many distinct oracles failing: report the rest unminimised
            small, nexec = case, 0
        small = dict(small)
        small["expect"] = {"oracle": oracle, "detail": f_["detail"], "shrunk_in": nexec,
                           "original_seed": r["seed"], "occurrences_in_batch": len(lst)}
        rdir = os.environ.get("PGSIM_REPLAY_DIR") or os.path.join(VERIF, "replays")
        os.makedirs(rdir, exist_ok=True)
        path = os.path.join(rdir, "%s-%d-%s.json" % (prop, r["seed"] % 10**10,
                                                                 oracle.replace("/", "_").replace("@", "_at_")))
        with open(path, "w") as fh:
            json.dump(canon_case(small), fh, indent=1, sort_keys=True)
        ok, out = confirm_fresh(prop, path, oracle)
        if not ok:
            # not reproducible alone in a fresh interpreter.  Either the harness is at fault, or the code under
            # test keeps process-global state and the failure needs the runs that preceded it in the same worker
            # process: replay those (regenerated from their seeds) followed by the original failing case
            seq_path = sequence_replay(mod, prop, r, case, oracle, f_, rdir)
            if seq_path is None:
                nondet.append((oracle, path, out[-2000:]))
                continue
            path = seq_path
            small = case
        e = match_known(prop, oracle, small, mod)
        if e is not None:
            known.append((e, oracle, path))
        else:
            violations.append((oracle, path, f_["detail"], len(lst)))
    return violations, known, nondet, []


def sequence_replay(mod, prop, rec, case, oracle, f_, rdir):
    """Find a shortest-possible list of earlier runs of the same worker process after which `case` fails with
    `oracle` in a fresh interpreter.  Returns the path of the sequence replay file, or None."""
    tier = os.environ.get("PGSIM_TIER_FOR_SEQ") or "quick"
    preds = []
    for j in rec.get("pred", []):
        seed = run_seed(prop, tier, j)
        try:
            c = mod.generate(seed, tier, j) if getattr(mod, "GENERATE_WITH_INDEX", False) else mod.generate(seed, tier)
        except Exception:
            continue
        c["property"] = prop
        c["run_seed"] = seed
        c["index"] = j
        preds.append(c)
    if not preds:
        return None
    path = os.path.join(rdir, "%s-%d-%s.seq.json" % (prop, rec["seed"] % 10**10, oracle.replace("/", "_").replace("@", "_at_")))

    def test(sub):
        doc = {"property": prop, "sequence": [canon_case(c) for c in sub] + [canon_case(case)],
               "expect": {"oracle": oracle, "detail": f_["detail"], "original_seed": rec["seed"],
                          "note": "runs executed one after the other in one process; the last one fails"}}
        with open(path, "w") as fh:
            json.dump(doc, fh, indent=1, sort_keys=True)
        ok, _ = confirm_fresh(prop, path, oracle)
        return ok
    if not test(preds):
        try:
            os.remove(path)
        except OSError:
            pass
        return None
    # delta debugging on the list of predecessors (each test is one fresh interpreter)
    cur = preds
    n = 2
    budget = 40
    while len(cur) >= 2 and budget > 0:
        size = max(1, len(cur) // n)
        chunks = [cur[k:k + size] for k in range(0, len(cur), size)]
        reduced = False
        for ch in chunks:
            if budget <= 0:
                break
            budget -= 1
            if test(ch):                                    # one chunk alone is enough
                cur, n, reduced = ch, 2, True
                break
        if not reduced:
            for k in range(len(chunks)):
                if budget <= 0:
                    break
                comp = [c for j, ch in enumerate(chunks) if j != k for c in ch]
                if len(comp) == len(cur) or not comp:
                    continue
                budget -= 1
                if test(comp):
                    cur, n, reduced = comp, max(n - 1, 2), True
                    break
        if not reduced:
            if n >= len(cur):
                break
            n = min(len(cur), 2 * n)
    test(cur)                                               # leave the minimal sequence in the file
    return path


def canon_case(case):
    """JSON-serialisable copy of a case with exact floats (repr round-trips)."""
    import numpy as np

    def conv(o):
        if isinstance(o, dict):
            return {str(k): conv(v) for k, v in o.items()}
        if isinstance(o, (list, tuple)):
            return [conv(v) for v in o]
        if isinstance(o, np.ndarray):
            return conv(o.tolist())
        if isinstance(o, np.integer):
            return int(o)
        if isinstance(o, np.floating):
            return float(o)
        return o
    return conv(case)


def pinned_known(mod):
    """Re-demonstrate every listed finding of this property from its pinned case."""
    lines = []
    for e in load_known():
        if e.get("kind") != "finding" or e.get("property") != mod.PROP:
            continue
        path = os.path.join(VERIF, e["pinned_case"])
        with open(path) as fh:
            case = json.load(fh)
        with quiet():
            res = mod.execute(case)
        got = [f_["oracle"] for f_ in res.get("failures", [])]
        still = any(o in e["oracle_ids"] for o in got)
        other = [o for o in got if o not in e["oracle_ids"]]
        lines.append((e, still, other))
    return lines


def regression_cases(mod, start_index):
    """Cases that once failed on a tree that was then repaired (known/regress/<property>-*.json, committed by hand):
    executed on every run, so that a repaired defect whose trigger is too rare for the seeded search to hit again is
    reported the moment it returns.  They go through the same minimise / fresh-interpreter path as any failure."""
    import glob
    out = []
    for k, path in enumerate(sorted(glob.glob(os.path.join(VERIF, "known", "regress", "%s-*.json" % mod.PROP)))):
        with open(path) as fh:
            case = json.load(fh)
        case.pop("expect", None)
        t0 = time.time()
        signal.signal(signal.SIGALRM, _alarm)
        signal.alarm(int(getattr(mod, "ALARM_S", 600)))
        try:
            with quiet():
                res = mod.execute(case)
        except RunTimeout:
            res = {"failures": [], "stats": {"alarm_inconclusive": 1}, "log": ["ALARM"]}
        finally:
            signal.alarm(0)
        out.append({"index": start_index + k, "seed": int(case.get("run_seed", 0)), "wall": time.time() - t0, "pred": [],
                    "failures": res.get("failures", []), "stats": dict(res.get("stats", {}), regression_cases=1),
                    "faults": res.get("faults", {}), "nontrivial": bool(res.get("nontrivial", False)),
                    "measure": res.get("measure", []), "digest": digest(res.get("log", [])),
                    "digest12": digest(res.get("log", []), 12), "cdigest": case_digest(case), "batch": "regression",
                    "case": case})
    return out


def write_evidence(mod, tier, recs, wall, violations, known_lines, extra=None):
    prop = mod.PROP
    n = len(recs)
    distinct = set()
    for r in recs:
        if r["nontrivial"]:
            distinct.add(r["cdigest"])
    faults = {}
    stats = {}
    measure = set()
    batches = {}
    for r in recs:
        for k, v in r["faults"].items():
            faults[k] = faults.get(k, 0) + v
        for k, v in r["stats"].items():
            if isinstance(v, (int, float)):
                stats[k] = stats.get(k, 0) + v
        for m_ in r["measure"]:
            measure.add(json.dumps(m_, sort_keys=True) if not isinstance(m_, str) else m_)
        batches[r["batch"]] = batches.get(r["batch"], 0) + 1
    samples = [canon_case(r["case"]) for r in recs if "case" in r][:3]
    ev = {
        "property_id": prop,
        "tier": tier,
        "seed": verif_seed(),
        "level": "exploration",
        "coverage": {
            "evaluations": n,
            "distinct_nontrivial": len(distinct),
            "rule": mod.RULE,
            "samples": samples,
            "runs_per_hour": int(n / max(wall, 1e-9) * 3600),
            "simulated_time": stats.get("sim_time", 0.0),
            "events_simulated": int(stats.get("events", 0)),
            "fault_counts": faults,
            "interleaving_measure": {"what": getattr(mod, "MEASURE", "distinct measure keys"),
                                     "distinct": len(measure)},
            "batches": batches,
            "stats": {k: (round(v, 6) if isinstance(v, float) else v) for k, v in sorted(stats.items())},
            "components": getattr(mod, "COMPONENTS", {}),
            "known_findings_reported": known_lines,
            "workers": int(os.environ.get("VERIF_WORKERS", "16")),
            "source_root": src_root(),
        },
        "assumptions": getattr(mod, "ASSUMPTIONS", []),
        "wall_s": round(wall, 3),
        "violations": len(violations),
    }
    if extra:
        ev["coverage"].update(extra)
    edir = os.environ.get("PGSIM_EVIDENCE_DIR") or os.path.join(VERIF, "evidence")
    os.makedirs(edir, exist_ok=True)
    path = os.path.join(edir, "%s.json" % prop)
    try:
        import jsonschema
        with open(SCHEMA) as fh:
            jsonschema.validate(ev, json.load(fh))
    except ImportError:
        pass
    except FileNotFoundError:
        pass
    tmp = path + ".tmp%d" % os.getpid()
    with open(tmp, "w") as fh:
        json.dump(ev, fh, indent=1, sort_keys=True)
    os.replace(tmp, path)
    return path


def main_check(mod, tier, replay=None):
    prop = mod.PROP
    if replay:
        return replay_file(mod, replay)
    t0 = time.time()
    print("VERIF_SEED=%d property=%s tier=%s src=%s" % (verif_seed(), prop, tier, src_root()))
    sys.stdout.flush()
    boot()
    count = mod.BUDGET[tier]
    try:
        recs = run_batch(mod, tier, count, alarm_s=getattr(mod, "ALARM_S", 600))
        recs.extend(regression_cases(mod, len(recs)))
        extra_ev = None
        if hasattr(mod, "aggregate"):
            agg_fail, extra_ev = mod.aggregate(recs, tier)
            if agg_fail:
                # aggregate (statistical) failures carry their own replay case
                recs.append({"index": -1, "seed": verif_seed(), "wall": 0.0, "failures": agg_fail["failures"],
                             "stats": {}, "faults": {}, "nontrivial": False, "measure": [], "digest": "",
                             "digest12": "", "cdigest": "agg", "batch": "aggregate", "case": agg_fail["case"]})
        os.environ["PGSIM_TIER_FOR_SEQ"] = tier
        violations, known, nondet, more = handle_failures(mod, recs)
        known_lines = []
        status = 0
        for e, still, other in pinned_known(mod):
            if still:
                line = "KNOWN-FINDING: property=%s %s [%s]" % (prop, e["what"], e["key"])
            else:
                line = ("KNOWN-FINDING: property=%s %s [%s] -- pinned case no longer fails "
                        "(finding may have been repaired upstream)" % (prop, e["what"], e["key"]))
            print(line)
            known_lines.append(line)
        for e, oracle, path in known:
            print("known finding re-found by search: property=%s key=%s oracle=%s replay=%s" % (
                prop, e["key"], oracle, os.path.relpath(path, VERIF)))
        recs = [r for r in recs if r["index"] >= 0]
        wall = time.time() - t0
        write_evidence(mod, tier, recs, wall, violations, known_lines, extra_ev)
        for oracle, path, out in nondet:
            print("HARNESS-NONDETERMINISM property=%s oracle=%s replay=%s did not reproduce in a fresh "
                  "interpreter" % (prop, oracle, path))
            status = 2
        for oracle, path, detail, occ in violations:
            print("VIOLATION property=%s replay=%s oracle=%s occurrences=%d detail=%s" % (
                prop, path, oracle, occ, detail[:300]))
            status = 1
        if more and status == 0:
            # more distinct failing oracles than we minimise per run: they are still failures
            print("additional failing oracles not minimised this run: %s" % ", ".join(more))
        nfail = sum(1 for r in recs if r["failures"])
        print("%s %s: %d runs, %d with failures, %d nontrivial-distinct, %.1f s" % (
            prop, tier, len(recs), nfail,
            len(set(r["cdigest"] for r in recs if r["nontrivial"])), wall))
        return status
    except HarnessError as e:
        print("HARNESS-ERROR property=%s %s" % (prop, e))
        return 2

"""Out-of-tree build of pygom.model._tau_leap from the *current* .pyx (DESIGN section 3).

The extension is compiled into a cache directory outside /repo and /verif, keyed by the hash of the
.pyx source and of the tool versions, and injected as sys.modules['pygom.model._tau_leap'] before
PyGOM is imported.  A mutated .pyx is therefore honoured and a missing in-tree .so is not fatal.
"""
import hashlib
import importlib.machinery
import importlib.util
import os
import shutil
import subprocess
import sys
import tempfile
from pathlib import Path

SETUP = """
from setuptools import setup, Extension
from Cython.Build import cythonize
import numpy
ext = [Extension("_tau_leap", ["_tau_leap.pyx"], include_dirs=[numpy.get_include()],
                 extra_compile_args=['-std=c99', '-O1'])]
setup(script_args=['build_ext', '--inplace'],
      ext_modules=cythonize(ext, compiler_directives={"language_level": 3, "profile": False}))
"""


def cache_root():
    base = os.environ.get("PYGOM_VERIF_CACHE")
    if base:
        return Path(base)
    base = os.environ.get("XDG_CACHE_HOME") or os.path.join(os.path.expanduser("~"), ".cache")
    return Path(base) / "pygom-verif"


def _key(pyx_bytes):
    import numpy
    import Cython
    import scipy
    h = hashlib.sha256()
    h.update(pyx_bytes)
    h.update(("%s|%s|%s|%s" % (sys.version, numpy.__version__, Cython.__version__, scipy.__version__)).encode())
    return h.hexdigest()[:20]


def ensure_built(src_root):
    """Return the path of an extension built from src_root/pygom/model/_tau_leap.pyx."""
    pyx = Path(src_root) / "pygom" / "model" / "_tau_leap.pyx"
    data = pyx.read_bytes()
    d = cache_root() / _key(data)
    found = sorted(d.glob("_tau_leap*.so")) if d.is_dir() else []
    if found:
        return found[0]
    d.parent.mkdir(parents=True, exist_ok=True)
    work = Path(tempfile.mkdtemp(prefix="tl-build-", dir=str(d.parent)))
    try:
        (work / "_tau_leap.pyx").write_bytes(data)
        (work / "setup.py").write_text(SETUP)
        env = dict(os.environ)
        env.pop("PYTHONPATH", None)
        p = subprocess.run([sys.executable, "setup.py"], cwd=str(work), env=env,
                           stdout=subprocess.PIPE, stderr=subprocess.STDOUT, timeout=600)
        so = sorted(work.glob("_tau_leap*.so"))
        if p.returncode != 0 or not so:
            raise RuntimeError("out-of-tree build of _tau_leap failed:\n" + p.stdout.decode(errors="replace")[-4000:])
        final = work.parent / (d.name + ".tmp%d" % os.getpid())
        final.mkdir(exist_ok=True)
        shutil.copy2(so[0], final / so[0].name)
        try:
            os.rename(final, d)
        except OSError:
            shutil.rmtree(final, ignore_errors=True)   # lost a race: somebody else built it
        found = sorted(d.glob("_tau_leap*.so"))
        return found[0]
    finally:
        shutil.rmtree(work, ignore_errors=True)


def inject(src_root):
    """Load the out-of-tree extension as pygom.model._tau_leap (must run before pygom is imported)."""
    name = "pygom.model._tau_leap"
    if name in sys.modules:
        return sys.modules[name]
    so = ensure_built(src_root)
    loader = importlib.machinery.ExtensionFileLoader(name, str(so))
    spec = importlib.util.spec_from_file_location(name, str(so), loader=loader)
    mod = importlib.util.module_from_spec(spec)
    loader.exec_module(mod)
    sys.modules[name] = mod
    return mod

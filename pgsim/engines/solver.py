"""Engine "solver": deterministic solving and everything built on it (losses, gradients, fit,
curvature, integrated sensitivities) under the I seam (integrator buffer policy) and with several
clients interleaved on one shared model.  Serves C02, C06, C07, C10(det), C13(int), C18, C20.
"""
import copy
import math

import numpy as np

from .. import core, gen, seams, refsolve
from ..build import build_model, np_time, insertion_order
from ..refmodel import RefModel

fail = core.fail

# ---------------------------------------------------------------------------------------------------
# catalogue (written out here so that the reference does not depend on pygom.common_models)
# ---------------------------------------------------------------------------------------------------
def _T(o, d, mag="1"):
    return {"type": "T", "o": o, "d": d, "mag": mag}


CATALOGUE = {
    "SIR": dict(model={"states": [{"name": "S"}, {"name": "I"}, {"name": "R"}], "params": ["beta", "gamma"],
                       "processes": [{"rate": "beta*S*I", "trans": [_T("S", "I")]}, {"rate": "gamma*I", "trans": [_T("I", "R")]}]},
                theta=[0.5, 1.0 / 3.0], x0=[1.0, 1.27e-3, 0.0], box=[[0.1, 2.0], [0.1, 1.0]], tmax=40.0, positive=True),
    "SIR_N": dict(model={"states": [{"name": "S"}, {"name": "I"}, {"name": "R"}], "params": ["beta", "gamma", "N"],
                         "processes": [{"rate": "beta*S*I/N", "trans": [_T("S", "I")]}, {"rate": "gamma*I", "trans": [_T("I", "R")]}]},
                  theta=[0.6, 0.25, 100.0], x0=[95.0, 5.0, 0.0], box=[[0.2, 2.0], [0.05, 1.0], [50.0, 200.0]], tmax=30.0, positive=True),
    "SIR_C": dict(model={"states": [{"name": "S"}, {"name": "I"}, {"name": "R"}], "params": ["beta", "gamma"],
                         "processes": [{"rate": "beta*S*I/200", "trans": [_T("S", "I")]}, {"rate": "gamma*I", "trans": [_T("I", "R")]}]},
                  theta=[1.5, 0.5], x0=[199.0, 1.0, 0.0], box=[[0.3, 3.0], [0.1, 1.5]], tmax=40.0, positive=True),
    "SEIR": dict(model={"states": [{"name": "S"}, {"name": "E"}, {"name": "I"}, {"name": "R"}], "params": ["beta", "alpha", "gamma"],
                        "processes": [{"rate": "beta*S*I", "trans": [_T("S", "E")]}, {"rate": "alpha*E", "trans": [_T("E", "I")]},
                                      {"rate": "gamma*I", "trans": [_T("I", "R")]}]},
                 theta=[1.2, 0.5, 0.4], x0=[0.95, 0.03, 0.02, 0.0], box=[[0.2, 3.0], [0.1, 2.0], [0.1, 2.0]], tmax=25.0, positive=True),
    "SIS": dict(model={"states": [{"name": "S"}, {"name": "I"}], "params": ["beta", "gamma"],
                       "processes": [{"rate": "beta*S*I", "trans": [_T("S", "I")]}, {"rate": "gamma*I", "trans": [_T("I", "S")]}]},
                theta=[0.9, 0.3], x0=[0.9, 0.1], box=[[0.2, 3.0], [0.05, 1.5]], tmax=20.0, positive=True),
    "SIR_BD": dict(model={"states": [{"name": "S"}, {"name": "I"}, {"name": "R"}], "params": ["beta", "gamma", "B", "mu"],
                          "processes": [{"rate": "beta*S*I", "trans": [_T("S", "I")]}, {"rate": "gamma*I", "trans": [_T("I", "R")]},
                                        {"rate": "B", "trans": [{"type": "B", "d": "S", "mag": "1"}]},
                                        {"rate": "mu*S", "trans": [{"type": "D", "o": "S", "mag": "1"}]},
                                        {"rate": "mu*I", "trans": [{"type": "D", "o": "I", "mag": "1"}]},
                                        {"rate": "mu*R", "trans": [{"type": "D", "o": "R", "mag": "1"}]}]},
                   theta=[1.5, 0.5, 0.05, 0.05], x0=[0.8, 0.2, 0.0], box=[[0.3, 3.0], [0.1, 1.5], [0.01, 0.3], [0.01, 0.3]], tmax=30.0, positive=True),
    "LV": dict(model={"states": [{"name": "x"}, {"name": "y"}], "params": ["alpha", "delta", "c", "gamma"],
                      "processes": [{"rate": "alpha*x", "trans": [{"type": "B", "d": "x", "mag": "1"}]},
                                    {"rate": "c*x*y", "trans": [{"type": "D", "o": "x", "mag": "1"}]},
                                    {"rate": "delta*x*y", "trans": [{"type": "B", "d": "y", "mag": "1"}]},
                                    {"rate": "gamma*y", "trans": [{"type": "D", "o": "y", "mag": "1"}]}]},
               theta=[1.0, 0.3, 0.5, 0.8], x0=[2.0, 1.0], box=[[0.3, 2.0], [0.1, 1.0], [0.1, 1.0], [0.3, 2.0]], tmax=12.0, positive=True),
    "FH": dict(model={"states": [{"name": "V"}, {"name": "R"}], "params": ["a", "b", "c"], "processes": [],
                      "odes": [{"state": "V", "eq": "c*(V - V**3/3 + R)"}, {"state": "R", "eq": "-(V - a + b*R)/c"}]},
               theta=[0.2, 0.2, 3.0], x0=[-1.0, 1.0], box=[[0.05, 1.0], [0.05, 1.0], [1.0, 5.0]], tmax=10.0, positive=False),
    "VDP": dict(model={"states": [{"name": "x"}, {"name": "y"}], "params": ["mu"], "processes": [],
                       "odes": [{"state": "x", "eq": "y"}, {"state": "y", "eq": "mu*(1 - x*x)*y - x"}]},
                theta=[1.0], x0=[2.0, 0.0], box=[[0.4, 2.0]], tmax=12.0, positive=False),
    "LIN3": dict(model={"states": [{"name": "A"}, {"name": "B"}, {"name": "C"}], "params": ["k1", "k2"],
                        "processes": [{"rate": "k1*A", "trans": [_T("A", "B")]}, {"rate": "k2*B", "trans": [_T("B", "C")]}]},
                 theta=[0.7, 0.3], x0=[10.0, 2.0, 1.0], box=[[0.1, 2.0], [0.05, 1.5]], tmax=10.0, positive=True),
    "ADD1": dict(model={"states": [{"name": "X"}, {"name": "Y"}], "params": ["a", "b"], "processes": [],
                        "odes": [{"state": "X", "eq": "a - 0.5*X*X"}, {"state": "Y", "eq": "b + 0.3*X - 0.2*Y*Y"}]},
                 theta=[1.2, 0.8], x0=[0.5, 1.0], box=[[0.2, 3.0], [0.2, 3.0]], tmax=6.0, positive=True),
    "LOGI": dict(model={"states": [{"name": "U"}], "params": ["r", "K"], "processes": [],
                        "odes": [{"state": "U", "eq": "r*U*(1 - U/K)"}]},
                 theta=[0.8, 10.0], x0=[1.0], box=[[0.2, 2.0], [5.0, 20.0]], tmax=10.0, positive=True),
}


def pick_problem(rng, random_frac=0.35, positive=None, min_p=1, tier="quick", only=None):
    """Return (name, model, theta, x0, t0, tmax, box, positive)."""
    for _ in range(200):
        t0 = rng.choice([0.0, 0.0, 0.0, 1.0, 0.5, 0.25, 2.75])
        if rng.random() < random_frac:
            model, names, params = gen.gen_model(rng, stochastic=False, p=rng.randint(max(1, min_p), 4),
                                                 m=rng.randint(1, 4), allow_range=rng.random() < 0.2,
                                                 with_derived=rng.random() < 0.2)
            # keep the solution bounded: transitions dominate, births only with bounded rates
            ok = True
            for pr in model["processes"]:
                if any(tr["type"] == "B" for tr in pr["trans"]) and ("*" in pr["rate"]) and "/(" not in pr["rate"]:
                    ok = False
            if not ok:
                continue
            for pr in model["processes"]:
                pr["route"] = gen.choose_route(rng, pr, allow_add=False)
            theta = [round(rng.uniform(0.1, 1.5), 3) for _ in params]
            x0 = [round(rng.uniform(0.5, 6.0), 3) for _ in names]
            box = [[0.05, 3.0] for _ in params]
            name, tmax, pos = "random", 6.0, False
            # rates have denominators like (1+X+Y): stay where they are >= 1, i.e. non-negative states
            chk = safe_reference(RefModel(model), theta, x0, t0, [t0 + tmax * (j + 1) / 16.0 for j in range(20)])
            if chk is None or chk.min() < 0.0:
                continue
        else:
            name = rng.choice(sorted(only or CATALOGUE))
            c = CATALOGUE[name]
            if positive and not c["positive"]:
                continue
            if len(c["model"]["params"]) < min_p:
                continue
            model = copy.deepcopy(c["model"])
            for pr in model["processes"]:
                pr["route"] = gen.choose_route(rng, pr, allow_add=False)
            box = c["box"]
            theta = [round(rng.uniform(lo + 0.15 * (hi - lo), hi - 0.15 * (hi - lo)), 4) for lo, hi in box] \
                if rng.random() < 0.7 else list(c["theta"])
            x0 = list(c["x0"])
            tmax, pos = c["tmax"], c["positive"]
        return name, model, theta, x0, t0, tmax, box, pos
    raise core.HarnessError("could not generate a problem")


def gen_times(rng, t0, tmax, k=None, uniform=None):
    k = k or rng.randint(3, 12)
    span = tmax * rng.choice([0.25, 0.5, 1.0])
    if uniform is None:
        uniform = rng.random() < 0.5
    if uniform:
        ts = [t0 + span * (j + 1) / k for j in range(k)]
    else:
        ts = sorted(t0 + rng.uniform(0.02, 1.0) * span for _ in range(k))
    out = []
    for t in ts:
        t = float(round(t, 5))
        if t > t0 and (not out or t > out[-1] + 1e-4):
            out.append(t)
    if len(out) < 2:
        out = [float(round(t0 + span / 2, 5)), float(round(t0 + span, 5))]
    return out


def safe_reference(ref, theta, x0, t0, times, cap=1e4):
    try:
        X = refsolve.solve(ref, theta, x0, t0, times)
    except refsolve.RefSolveError:
        return None
    if not np.all(np.isfinite(X)) or np.abs(X).max() > cap:
        return None
    return X


# ---------------------------------------------------------------------------------------------------
# session
# ---------------------------------------------------------------------------------------------------
class Session(object):
    def __init__(self, case):
        self.case = case
        self.pg = core.boot()
        model = copy.deepcopy(case["model"])
        self.model = model
        self.event_order = list(insertion_order(model))
        self.extended = 0
        self.ref = RefModel(model, self.event_order)
        env = case.get("env", {})
        self.k = None
        kenv = env.get("K", {"backend": "lambda"})
        if "backend" in kenv:
            self.ode = build_model(self.pg, model, backend=kenv["backend"])
        else:
            plan = list(kenv.get("plan", ["numpy"]))
            self.k = seams.KSeam(self.pg.ou, lambda i: plan[i % len(plan)]).install()
            self.ode = build_model(self.pg, model)
        self.theta = list(case["theta"])
        if self.ref.p:
            self.ode.parameters = list(self.theta)
        self.x0 = np.array(case["x0"], float)
        self.t0 = float(case["t0"])
        x0arg = self.x0.copy()
        how = case.get("x0_as", "array")
        if how == "list":
            x0arg = [float(v) for v in self.x0]
        elif how == "int_array" and np.all(self.x0 == np.round(self.x0)):
            x0arg = np.array([int(v) for v in self.x0], dtype=int)
        elif how == "tuple":
            x0arg = tuple(float(v) for v in self.x0)
        t0arg = np_time(self.t0)
        if case.get("t0_as") == "float":
            t0arg = float(self.t0)
        elif case.get("t0_as") == "int" and self.t0 == int(self.t0):
            t0arg = int(self.t0)
        self.ode.initial_values = (x0arg, t0arg)
        self.i = seams.ISeam(self.pg.ou, env.get("I", "native")).install()
        self.loss = {}
        self.lossdef = {}
        self.loss_x0 = {}      # a loss object keeps the initial values it was last given (costIV & co.)
        self.loss_theta = {}   # ... and the parameters it was last given (what a call without argument uses)
        self.interleaves = 0

    def close(self):
        self.i.remove()
        if self.k is not None:
            self.k.remove()

    def fired(self):
        f = dict(self.i.fired)
        if self.k is not None:
            for k_, v in self.k.fired.items():
                f[k_] = f.get(k_, 0) + v
        if self.interleaves:
            f["H.interleave"] = self.interleaves
        return f


def make_times_arg(op):
    g = op["grid"]
    ty = op.get("gtype", "array")
    if ty == "scalar":
        return float(g[0])
    if ty == "list":
        return [float(v) for v in g]
    if ty == "tuple":
        return tuple(float(v) for v in g)
    if ty == "int_array":                     # integer dtype grid (np.arange of whole days)
        return np.array([int(v) for v in g], dtype=int)
    if ty == "int_list":
        return [int(v) for v in g]
    if ty == "int_tuple":
        return tuple(int(v) for v in g)
    return np.array(g, float)


# ---------------------------------------------------------------------------------------------------
# C02: solve
# ---------------------------------------------------------------------------------------------------
def run_solve(sess, op, step, out, stats, log):
    ode, ref = sess.ode, sess.ref
    ou = sess.pg.ou
    F = out.append
    grid = [float(v) for v in op["grid"]]
    entry = op["entry"]
    method = op.get("method")
    targ = make_times_arg(op)
    origin = True
    try:
        fo = bool(op.get("full_output"))
        if entry == "integrate":
            sol = ode.integrate(targ, full_output=True)[0] if fo else ode.integrate(targ)
        elif entry == "solve_determ":
            sol = ode.solve_determ(targ)
        elif entry == "integrate2":
            sol = ode.integrate2(targ, full_output=True, method=method)[0] if fo else ode.integrate2(targ, method=method)
        elif entry == "funcjac":
            origin = bool(op.get("include_origin"))
            args = dict(includeOrigin=origin, full_output=bool(op.get("full_output")), method=method)
            if op.get("nsteps"):
                args["nsteps"] = int(op["nsteps"])          # the caller's own step budget per output interval
            res = ou.integrateFuncJac(ode.ode_T, ode.jacobian_T, sess.x0.copy(), sess.t0, targ, **args)
            sol = res[0] if op.get("full_output") else res
        else:
            raise core.HarnessError("entry %r" % entry)
    except core.HarnessError:
        raise
    except core.RunTimeout:
        raise
    except Exception as e:
        if type(e).__name__ == "IntegrationError" and entry in ("integrate2", "funcjac") \
                and method in ("dopri5", "dop853", "vode") and stiff_for_explicit(sess, grid):
            # an explicit / non-stiff method giving up on a stiff system (|Re lambda| x horizon in the thousands):
            # integrator failure is outside the property (it is stated on models on which the integrators succeed)
            stats["stiff_explicit_failure_void"] = stats.get("stiff_explicit_failure_void", 0) + 1
            return
        if op.get("nsteps") and type(e).__name__ == "IntegrationError":
            # the caller restricted the number of internal steps and the integrator ran out of them: a legitimate
            # failure (what must NOT happen is rows that are silently not the solution)
            stats["step_budget_exhausted_void"] = stats.get("step_budget_exhausted_void", 0) + 1
            return
        if op.get("long") and type(e).__name__ == "IntegrationError":
            # an integrator giving up on a gap of tens of periods: integrator failure is outside the property
            stats["integrator_failed_long_gap"] = stats.get("integrator_failed_long_gap", 0) + 1
            return
        F(core.crash_failure("C02", e, step, "%s(method=%s, full_output=%s)" % (entry, method, op.get("full_output"))))
        return
    sol = np.asarray(sol, float)
    stats["solves"] = stats.get("solves", 0) + 1
    stats["sim_time"] = stats.get("sim_time", 0.0) + (grid[-1] - sess.t0)
    log.append(["solve", step, entry, method, core.digest(sol.tolist(), 9)])
    rows = len(grid) + (1 if origin else 0)
    label = "%s/%s/%s" % (entry, method, "full" if op.get("full_output") else "plain")
    if sol.shape != (rows, ref.n):
        F(fail("C02.rows", step, "%s: result shape %s for %d requested times%s and %d states" % (
            label, sol.shape, len(grid), " + origin" if origin else "", ref.n)))
        return
    want = refsolve.solve(ref, sess.theta, sess.x0, sess.t0, grid)
    if origin:
        if not np.array_equal(sol[0], sess.x0):
            F(fail("C02.origin", step, "%s: first row %s is not the initial state %s" % (label, sol[0].tolist(), sess.x0.tolist())))
        got = sol[1:]
    else:
        got = sol
    tol = 1e-5 * (1.0 + np.abs(want).max())
    if op.get("long"):
        # oscillators over tens of periods: the phase error of a tolerance-1.5e-8 integrator grows with the horizon
        tol *= max(1.0, (grid[-1] - sess.t0) / 4.0)
        stats["long_gap_solves"] = stats.get("long_gap_solves", 0) + 1
    err = np.abs(got - want)
    if np.any(err > tol) or not np.all(np.isfinite(got)):
        k = int(np.argmax(err.max(axis=1)))
        same = bool(len(got) > 1 and np.all(got == got[-1]))
        F(fail("C02.value", step, "%s policy=%s: row %d (t=%r) is %s, the solution is %s (max err %.3g, tol %.3g)%s" % (
            label, sess.i.policy, k, grid[k], got[k].tolist(), want[k].tolist(), float(err.max()), tol,
            "; every row equals the last row" if same else "")))
    # non-triviality: >= 3 rows whose reference values differ pairwise by > 100 tol
    nt = 0
    if len(want) >= 3:
        d01 = np.abs(want[0] - want[1]).max()
        d12 = np.abs(want[1] - want[-1]).max()
        d02 = np.abs(want[0] - want[-1]).max()
        nt = int(min(d01, d12, d02) > 100 * tol)
    stats["nontrivial_solves"] = stats.get("nontrivial_solves", 0) + nt
    # C10 (deterministic clause): closed models keep the total
    if ref.is_transition_only():
        tot = sol.sum(axis=1)
        ref_tot = float(np.sum(sess.x0))
        if np.any(np.abs(tot - ref_tot) > 1e-6 * (1.0 + abs(ref_tot))):
            k = int(np.argmax(np.abs(tot - ref_tot)))
            F(fail("C10.det.sum", step, "%s: total population %r at row %d, initial total %r" % (label, float(tot[k]), k, ref_tot)))
        stats["conservation_checked"] = stats.get("conservation_checked", 0) + 1


def stiff_for_explicit(sess, grid, threshold=2000.0):
    """True when the reference Jacobian along the reference solution has max |Re lambda| x (t_end - t0) beyond
    `threshold`: an explicit Runge-Kutta or Adams method then needs more steps than its step budget."""
    ref = sess.ref
    try:
        tend = float(grid[-1])
        ts = [sess.t0 + (tend - sess.t0) * (k + 1) / 12.0 for k in range(12)]
        X = refsolve.solve(ref, sess.theta, sess.x0, sess.t0, ts)
        worst = 0.0
        for x, t in zip([sess.x0] + list(X), [sess.t0] + ts):
            J = ref.num("J", x, t, sess.theta)
            worst = max(worst, float(np.abs(np.linalg.eigvals(J).real).max()))
        return worst * (tend - sess.t0) > threshold
    except Exception:
        return False


def rebind(sess, op, step, out, stats, log):
    """The owner re-assigns parameters and / or initial values of the model that is being solved (a history on
    one object: the next solve must be the solution for the NEW values, nothing may be cached from before)."""
    ode, ref = sess.ode, sess.ref
    try:
        if "theta" in op and ref.p:
            th = [float(v) for v in op["theta"]]
            how = op.get("how", "list")
            names = ref.param_names
            if how == "dict":
                ode.parameters = {nm: v for nm, v in zip(names, th)}
            elif how == "pairs":
                idx = op.get("perm") or list(range(len(names)))
                ode.parameters = [(names[i], th[i]) for i in idx]
            elif how == "partial":
                keep = op.get("names") or names[:1]
                ode.parameters = {nm: th[names.index(nm)] for nm in keep}
                th = [th[i] if names[i] in keep else sess.theta[i] for i in range(len(names))]
            elif how == "array":
                ode.parameters = np.array(th, float)
            else:
                ode.parameters = list(th)
            sess.theta = th
            sess.model_theta = list(th)
        if "x0" in op:
            sess.x0 = np.array(op["x0"], float)
            sess.t0 = float(op.get("t0", sess.t0))
            t0arg = np_time(sess.t0) if op.get("t0_as", "numpy") == "numpy" else float(sess.t0)
            ode.initial_values = (sess.x0.copy(), t0arg)
    except core.HarnessError:
        raise
    except Exception as e:
        out.append(core.crash_failure("C02", e, step, "re-assigning parameters / initial values between solves"))
        return
    stats["rebinds"] = stats.get("rebinds", 0) + 1
    sess.interleaves += 1
    log.append(["rebind", step, sorted(k for k in op if k != "op")])


# ---------------------------------------------------------------------------------------------------
# loss objects (C06, C07, C18, C20)
# ---------------------------------------------------------------------------------------------------
def loss_new(sess, op, step, out, stats, log):
    pl = sess.pg.pl
    cls = getattr(pl, op["cls"])
    kw = {}
    y = np.array(op["y"], float)
    if y.ndim == 2 and y.shape[1] == 1 and op.get("y_flat"):
        y = y.ravel()
    if op.get("weights") is not None:
        kw["state_weight"] = op["weights"] if not isinstance(op["weights"], list) else np.array(op["weights"], float)
    if op.get("spread") is not None:
        key = {"NormalLoss": "sigma", "GammaLoss": "shape", "NegBinomLoss": "k"}[op["cls"]]
        kw[key] = op["spread"] if not isinstance(op["spread"], list) else np.array(op["spread"], float)
    if op.get("target_param") is not None:
        kw["target_param"] = list(op["target_param"])
    if op.get("target_state") is not None:
        kw["target_state"] = list(op["target_state"])
    states = list(op["states"])
    sname = states[0] if (len(states) == 1 and op.get("state_as_str")) else states
    theta0 = op["theta0"]
    try:
        if op.get("obs_as") == "int_array":
            targ = np.array([int(v) for v in op["obs_t"]], dtype=int)
        elif op.get("obs_as") == "int_list":
            targ = [int(v) for v in op["obs_t"]]
        else:
            targ = np.array(op["obs_t"], float)
        x0arg = sess.x0.copy()
        if op.get("x0_as") in ("int_array", "int_list") and np.all(sess.x0 == np.round(sess.x0)):
            # whole-number initial states handed over with an integer type (counts of people)
            x0arg = np.array([int(v) for v in sess.x0], dtype=int) if op["x0_as"] == "int_array" else [int(v) for v in sess.x0]
        obj = cls(theta0, sess.ode, x0arg, sess.t0, targ, y, sname, **kw)
    except core.RunTimeout:
        raise
    except Exception as e:
        if type(e).__name__ == "InputError" and len(set(op["obs_t"])) < len(op["obs_t"]):
            # replicated observation times: the constructor integrates with a method chosen from the
            # Jacobian's eigenvalues, and dopri5 / vode refuse a zero-length step.  PyGOM says so with
            # an InputError; such a grid is then outside what it accepts (observation, not a verdict)
            stats["replicated_times_refused"] = stats.get("replicated_times_refused", 0) + 1
            return
        out.append(core.crash_failure(op.get("prop", "C06"), e, step, "constructing %s" % op["cls"]))
        return
    sess.loss[op["id"]] = obj
    sess.lossdef[op["id"]] = op
    sess.loss_x0[op["id"]] = [float(v) for v in sess.x0]
    log.append(["loss_new", step, op["cls"], states])


def full_theta(sess, d, free):
    """Map the free-variable vector of a loss object to (theta_full, x0_full)."""
    ref = sess.ref
    theta = list(sess.model_theta)
    x0 = list(sess.loss_x0.get(d["id"], sess.x0))
    tp = d.get("target_param")
    ts = d.get("target_state")
    free = list(free)
    if tp is None:
        npar = ref.p
        theta = free[:npar]
        rest = free[npar:]
    else:
        for nm, v in zip(tp, free[:len(tp)]):
            theta[ref.param_names.index(nm)] = v
        rest = free[len(tp):]
    if rest:
        names = ts if ts is not None else ref.state_names
        for nm, v in zip(names, rest):
            x0[ref.state_names.index(nm)] = v
    return theta, x0


def ref_cost(sess, d, free):
    ref = sess.ref
    theta, x0 = full_theta(sess, d, free)
    X = refsolve.solve(ref, theta, x0, sess.t0, d["obs_t"])
    idx = [ref.state_names.index(s) for s in d["states"]]
    yhat = X[:, idx]
    y = np.array(d["y"], float).reshape(yhat.shape)
    w = d.get("weights")
    if w is not None:
        w = np.array(w, float)
        if w.ndim == 1 and w.shape[0] == yhat.shape[1] and yhat.shape[0] != yhat.shape[1]:
            w = np.broadcast_to(w, yhat.shape)
        elif w.ndim == 1 and w.shape[0] == yhat.shape[0]:
            w = np.broadcast_to(w.reshape(-1, 1), yhat.shape)
        else:
            w = np.broadcast_to(w, yhat.shape)
    sp_ = d.get("spread")
    if sp_ is not None:
        sp_ = np.array(sp_, float)
        if sp_.ndim == 1 and sp_.shape[0] == yhat.shape[0] and yhat.shape[1] != sp_.shape[0]:
            sp_ = np.broadcast_to(sp_.reshape(-1, 1), yhat.shape)
        else:
            sp_ = np.broadcast_to(sp_, yhat.shape)
    return refsolve.ref_loss(d["cls"], y, yhat, w, sp_), yhat


def owner_ops(sess, op, step, stats, log):
    """The model owner (another client) touches the shared model between two calls of a loss object."""
    ode, ref = sess.ode, sess.ref
    kind = op.get("kind", "scramble")
    sess.interleaves += 1
    if kind == "scramble":
        vals = op["values"]
        if op.get("names"):
            ode.parameters = {nm: v for nm, v in zip(op["names"], vals)}
            for nm, v in zip(op["names"], vals):
                sess.model_theta[ref.param_names.index(nm)] = v
        else:
            ode.parameters = list(vals)
            sess.model_theta = list(vals)
    elif kind == "integrate":
        ode.initial_values = (np.array(op["x0"], float), np_time(op.get("t0", sess.t0)))
        ode.integrate(np.array(op["grid"], float))
    elif kind == "evaluate":
        ode.ode(np.array(op["x"], float), op["t"])
        ode.jacobian(np.array(op["x"], float), op["t"])
    elif kind == "extend":
        # the owner extends the shared model in place (states and parameters unchanged): every client that holds a
        # reference to it - loss objects included - must from now on see the new model, nothing cached from the old
        from ..build import make_process
        if "proc" in op:
            slot, obj = make_process(sess.pg, op["proc"], op.get("route", "add_event"))
            if slot == "event":
                ode.add_event(obj)
            elif slot == "transition":
                ode.add_transition(obj)
            else:
                ode.add_birth_death(obj)
            sess.model.setdefault("processes", []).append(dict(op["proc"], route=op.get("route", "add_event")))
            sess.event_order.append(len(sess.model["processes"]) - 1)
        else:
            ode.add_ode(sess.pg.Transition(origin=op["state"], equation=op["eq"], transition_type="ODE"))
            sess.model.setdefault("odes", []).append({"state": op["state"], "eq": op["eq"]})
        sess.ref = RefModel(sess.model, sess.event_order)
        sess.extended += 1
        stats["model_extended"] = stats.get("model_extended", 0) + 1
    log.append(["owner", step, kind])


def integration_failure_outside_domain(sess, d, free, exc, stats):
    """PyGOM raised IntegrationError.  What it must do when an integrator fails is not stated by any
    property; the call is void if the reference agrees that (theta, x0) leaves the domain (no reference
    solution, a negative state - rates have denominators like 1+S - or an exploding one)."""
    if type(exc).__name__ != "IntegrationError":
        return False
    if len(set(d["obs_t"])) < len(d["obs_t"]):
        # a zero-length step between replicated observation times is refused by dopri5 / vode
        stats["replicated_times_refused"] = stats.get("replicated_times_refused", 0) + 1
        _after_void_call(sess, d, free)
        return True
    try:
        theta, x0 = full_theta(sess, d, list(free))
        X = refsolve.solve(sess.ref, theta, x0, sess.t0, d["obs_t"])
        bad = (not np.all(np.isfinite(X))) or np.abs(X).max() > 1e4 or X.min() < -1e-6
    except (refsolve.RefSolveError, Exception):
        bad = True
    if bad:
        stats["integration_failure_outside_domain"] = stats.get("integration_failure_outside_domain", 0) + 1
        _after_void_call(sess, d, free)
    return bad


def _after_void_call(sess, d, free):
    """A call that ended in a (void) integration failure had already stored its parameters in the loss object and
    pushed them into the shared model before the integrator was started: that is the state later calls see."""
    try:
        _sync_model_theta(sess, d, list(free))
        _remember_theta(sess, d, list(free))
    except Exception:
        sess.loss_theta.pop(d["id"], None)


def loss_call(sess, op, step, out, stats, log):
    """cost / residual / costIV against RefLoss on RefSolve (C06)."""
    obj = sess.loss.get(op["id"])
    if obj is None:
        return
    d = sess.lossdef[op["id"]]
    what = op["what"]
    free = list(op["free"])
    stored = op.get("use_stored") and what in ("cost", "residual") and d["id"] in sess.loss_theta
    if stored:
        # the call is made without an argument: "at the parameters this object was last given" - whatever
        # other clients did to the shared model in the meantime
        free = list(sess.loss_theta[d["id"]])
        stats["stored_theta_calls"] = stats.get("stored_theta_calls", 0) + 1
    try:
        if what == "cost":
            got = obj.cost() if stored else obj.cost(np.array(free, float) if op.get("as_array", True) else list(free))
        elif what == "costIV":
            got = obj.costIV(np.array(free, float))
        elif what == "residual":
            got = obj.residual() if stored else obj.residual(np.array(free, float))
        else:
            raise core.HarnessError(what)
    except core.HarnessError:
        raise
    except core.RunTimeout:
        raise
    except Exception as e:
        if integration_failure_outside_domain(sess, d, free, e, stats):
            return
        out.append(core.crash_failure("C06", e, step, "%s.%s" % (d["cls"], what)))
        return
    stats["cost_calls"] = stats.get("cost_calls", 0) + 1
    _remember_theta(sess, d, free)
    want, yhat = ref_cost(sess, d, free)
    # the loss object wrote its parameters into the shared model (and keeps the initial values)
    _sync_model_theta(sess, d, free)
    if what == "residual":
        y = np.array(d["y"], float).reshape(yhat.shape)
        w = np.ones_like(y)
        if d.get("weights") is not None:
            w = _bcast(d["weights"], yhat.shape)
        wantr = (y - yhat) * w
        gotr = np.asarray(got, float).reshape(wantr.shape) if np.asarray(got).size == wantr.size else np.asarray(got, float)
        scale = 1e-6 * (1.0 + np.abs(yhat).max())
        if gotr.shape != wantr.shape or np.any(np.abs(gotr - wantr) > scale):
            out.append(fail("C06.residual", step, "%s residual %s, expected %s" % (d["cls"], np.asarray(got).tolist(), wantr.tolist())))
        log.append(["residual", step, core.digest(np.asarray(got, float).tolist(), 8)])
        return
    got = float(got)
    log.append([what, step, "%.8e" % got])
    # conditioning of the loss w.r.t. yhat decides the tolerance: use the cost of the reference
    # trajectory perturbed by the solver tolerance as the yardstick
    tol = 1e-6 * (1.0 + abs(want)) + loss_slack(d, yhat)
    if not (abs(got - want) <= tol):
        out.append(fail("C06.%s" % what, step, "%s %s(%s) = %r, the stated loss of the true trajectory is %r (|diff| %.3g > tol %.3g); states %s" % (
            d["cls"], what, free, got, want, abs(got - want), tol, d["states"])))
    same_x0 = [float(v) for v in sess.loss_x0.get(d["id"], sess.x0)] == [float(v) for v in sess.x0]
    if d["cls"] == "SquareLoss" and op.get("at_truth") and not stored and not sess.extended and d.get("noise_free") and same_x0 and what == "cost":
        sy = float(np.sum(np.array(d["y"], float) ** 2))
        if not (got < 1e-10 * max(sy, 1e-300) + 1e-14):
            out.append(fail("C06.zero", step, "square-loss cost at the data-generating parameters is %r (sum y^2 = %r)" % (got, sy)))


def loss_slack(d, yhat):
    """How much the reference loss itself moves when yhat moves by the solver tolerance 1e-6(1+|yhat|)."""
    y = np.array(d["y"], float).reshape(yhat.shape)
    eps = 2e-6 * (1.0 + np.abs(yhat))
    w = None if d.get("weights") is None else _bcast(d["weights"], yhat.shape)
    sp_ = None if d.get("spread") is None else _bcast(d["spread"], yhat.shape)
    base = refsolve.ref_loss(d["cls"], y, yhat, w, sp_)
    hi = refsolve.ref_loss(d["cls"], y, yhat + eps, w, sp_)
    lo = refsolve.ref_loss(d["cls"], y, np.maximum(yhat - eps, 1e-300) if d["cls"] != "SquareLoss" and d["cls"] != "NormalLoss" else yhat - eps, w, sp_)
    # first-order bound summed elementwise is what matters; use the elementwise worst case
    return float(abs(hi - base) + abs(lo - base)) + 1e-12


def _bcast(v, shape):
    a = np.array(v, float)
    if a.ndim == 1 and len(shape) == 2 and a.shape[0] == shape[0] and shape[1] != a.shape[0]:
        a = a.reshape(-1, 1)
    return np.broadcast_to(a, shape)


def _remember_theta(sess, d, free):
    """The parameter part of the last free vector given explicitly to this loss object (what a later call
    without an argument refers to)."""
    k = len(d["target_param"]) if d.get("target_param") is not None else sess.ref.p
    sess.loss_theta[d["id"]] = [float(v) for v in list(free)[:k]]


def _sync_model_theta(sess, d, free):
    """After a call the loss object has written its parameters into the shared model and keeps
    the initial values it was given."""
    theta, x0 = full_theta(sess, d, free)
    sess.model_theta = list(theta)
    sess.loss_x0[d["id"]] = list(x0)


def richardson(f, x, rel=1e-4, spread=False):
    """Gradient by Richardson-extrapolated central differences.  With spread=True also return
    |d(h/2) - d(h)| per component: an empirical bound on truncation error plus evaluation noise."""
    x = np.array(x, float)
    g = np.zeros(len(x))
    sp_ = np.zeros(len(x))
    for j in range(len(x)):
        h = rel * max(1.0, abs(x[j]))
        e = np.zeros(len(x))
        e[j] = h
        d1 = (f(x + e) - f(x - e)) / (2 * h)
        e[j] = h / 2
        d2 = (f(x + e) - f(x - e)) / h
        g[j] = (4 * d2 - d1) / 3.0
        sp_[j] = abs(d2 - d1)
    return (g, sp_) if spread else g


def grad_call(sess, op, step, out, stats, log):
    """sensitivity / gradient / sensitivityIV / jac against finite differences of PyGOM's own cost (C07)."""
    obj = sess.loss.get(op["id"])
    if obj is None:
        return
    d = sess.lossdef[op["id"]]
    which = op["which"]
    free = np.array(op["free"], float)
    method = op.get("method")
    stored = bool(op.get("use_stored")) and which in ("sensitivity", "gradient", "jac") and d["id"] in sess.loss_theta
    if stored:
        free = np.array(sess.loss_theta[d["id"]], float)
        stats["stored_theta_calls"] = stats.get("stored_theta_calls", 0) + 1
    label = "%s.%s(%smethod=%s) states=%s target_param=%s target_state=%s" % (
        d["cls"], which, "theta=None, " if stored else "", method, d["states"], d.get("target_param"), d.get("target_state"))
    try:
        if which == "sensitivity":
            got = obj.sensitivity(None if stored else free.copy(), method=method)
        elif which == "gradient":
            got = obj.gradient(None if stored else free.copy())
        elif which == "sensitivityIV":
            got = obj.sensitivityIV(free.copy(), method=method)
        elif which == "jac":
            got = obj.jac(None if stored else free.copy(), method=method)
        else:
            raise core.HarnessError(which)
    except core.HarnessError:
        raise
    except core.RunTimeout:
        raise
    except Exception as e:
        if integration_failure_outside_domain(sess, d, list(free), e, stats):
            return
        out.append(core.crash_failure("C07", e, step, label))
        return
    _sync_model_theta(sess, d, list(free))
    stats["grad_calls"] = stats.get("grad_calls", 0) + 1
    got = np.asarray(got, float)
    log.append(["grad", step, which, core.digest(got.tolist(), 6)])
    try:
        if which == "jac":
            ns = len(d["states"])

            def resid(v):
                r = np.asarray(obj.residual(np.array(v, float), apply_weighting=False), float)
                return r.reshape(len(d["obs_t"]), ns)
            nfree = len(free)
            want = np.zeros((len(d["obs_t"]), ns * nfree))
            jac_noise = np.zeros_like(want)
            for k in range(nfree):
                col, spr = richardson_vec(resid, free, k, spread=True)
                # evaluation noise of the finite difference itself: |d(h/2) - d(h)| plus the solver tolerance
                # of the residual (1e-8 (1 + |yhat|)) divided by the step
                hk = 1e-4 * max(1.0, abs(free[k]))
                for s in range(ns):
                    want[:, k * ns + s] = -col[:, s]
                    jac_noise[:, k * ns + s] = 3.0 * spr[:, s] + 1e-8 * (1.0 + np.abs(np.array(d["y"], float).reshape(len(d["obs_t"]), ns)[:, s])) / hk
            cost_scale = np.abs(want).max() + 1.0
        else:
            fcost = (lambda v: float(obj.costIV(np.array(v, float)))) if which == "sensitivityIV" else \
                (lambda v: float(obj.cost(np.array(v, float))))
            want, fd_spread = richardson(fcost, free, spread=True)
            # evaluation noise of cost (solver tolerance) divided by the step, plus 1e-6 of the gradient scale
            fd_spread = fd_spread + 1e-12 * (1.0 + abs(fcost(free))) / (1e-4 * np.maximum(1.0, np.abs(free))) \
                + 1e-6 * np.abs(want).max()
            cost_scale = np.abs(want).max() + abs(fcost(free)) * 1e-3 + 1e-6
    except core.RunTimeout:
        raise
    except Exception as e:
        stats["fd_failed"] = stats.get("fd_failed", 0) + 1
        return
    finally:
        _sync_model_theta(sess, d, list(free))
        try:
            # leave the object in a defined state: the last parameters it was given are `free`
            if which == "sensitivityIV":
                obj.costIV(np.array(free, float))
            else:
                obj.cost(np.array(free, float))
            _remember_theta(sess, d, list(free))
        except core.RunTimeout:
            raise
        except Exception:
            sess.loss_theta.pop(d["id"], None)
    noise = 0.0
    if which != "jac":
        try:
            noise = grad_noise_floor(sess, d, list(free), which == "sensitivityIV") + 3.0 * fd_spread
        except refsolve.RefSolveError:
            noise = 3.0 * fd_spread
        try:
            # evaluation noise of the finite difference when the cost is steep in the prediction: the trajectory
            # behind cost() is known to ~1.5e-8 relative, i.e. 1e-2 of the 2e-6 that loss_slack is computed for
            _, yhat_ = ref_cost(sess, d, list(free))
            hvec = 1e-4 * np.maximum(1.0, np.abs(free))
            noise = noise + 0.02 * loss_slack(d, yhat_) / hvec
        except Exception:
            pass
    if got.shape != want.shape:
        out.append(fail("C07.shape.%s" % which, step, "%s returned shape %s, %d free variables" % (label, got.shape, len(free))))
        return
    tol = 2e-4 * np.maximum(np.abs(got), np.abs(want)) + (noise if which != "jac" else 1e-5 * cost_scale + jac_noise) + 1e-10
    if np.any(np.abs(got - want) > tol) or not np.all(np.isfinite(got)):
        k = int(np.argmax(np.abs(got - want) - tol))
        perm = ""
        if got.ndim == 1 and len(got) > 1 and np.allclose(np.sort(got), np.sort(want), rtol=1e-3, atol=1e-5 * cost_scale):
            perm = " (same numbers in a different order)"
        out.append(fail("C07.grad.%s" % which, step, "%s at %s: %s, derivative of cost is %s%s" % (
            label, free.tolist(), got.tolist() if got.ndim == 1 else "entry %d = %r" % (k, float(got.ravel()[k])),
            want.tolist() if want.ndim == 1 else "%r" % float(want.ravel()[k]), perm)))


def loss_curvature(cls, y, yhat, w, spread):
    """|d2 loss / d yhat2| per observation (how strongly a trajectory error moves dloss/dyhat)."""
    if cls == "SquareLoss":
        return 2.0 * w * w
    if cls == "NormalLoss":
        return w * w / (spread ** 2)
    if cls == "PoissonLoss":
        return np.abs(y / yhat ** 2) + 1.0 / np.maximum(yhat, 1e-12)
    if cls == "GammaLoss":
        a = spread
        return np.abs(-a / yhat ** 2 + 2 * a * y / yhat ** 3) + a / yhat ** 2
    if cls == "NegBinomLoss":
        k = spread
        return np.abs(-k / (k + yhat) ** 2 + y / yhat ** 2 - y / (k + yhat) ** 2) + 1.0 / np.maximum(yhat, 1e-12)
    raise ValueError(cls)


def grad_noise_floor(sess, d, free, with_iv):
    """Absolute error the analytic gradient may legitimately carry: the trajectory is only known to
    solver tolerance (taken as 1e-7 (1+|yhat|), generous for rtol=atol=1e-10), and that error enters
    dloss/dyhat through the curvature of the loss and is multiplied by the sensitivities."""
    ref = sess.ref
    theta, x0 = full_theta(sess, d, free)
    X, S, S0 = refsolve.solve_sens(ref, theta, x0, sess.t0, d["obs_t"], with_iv=with_iv)
    idx = [ref.state_names.index(s) for s in d["states"]]
    T = len(d["obs_t"])
    yhat = X[:, idx]
    y = np.array(d["y"], float).reshape(yhat.shape)
    w = np.ones_like(yhat) if d.get("weights") is None else _bcast(d["weights"], yhat.shape)
    default_spread = {"NormalLoss": 1.0, "GammaLoss": 2.0, "NegBinomLoss": 1.0}.get(d["cls"], 1.0)
    sp_ = np.full(yhat.shape, default_spread) if d.get("spread") is None else _bcast(d["spread"], yhat.shape)
    kappa = loss_curvature(d["cls"], y, yhat, w, sp_)
    delta = 1e-7 * (1.0 + np.abs(yhat))
    tp = d.get("target_param")
    pidx = list(range(ref.p)) if tp is None else [ref.param_names.index(nm) for nm in tp]
    cols = [S[:, idx, k] for k in pidx]
    if with_iv:
        ts = d.get("target_state")
        sidx = list(range(ref.n)) if ts is None else [ref.state_names.index(nm) for nm in ts]
        cols += [S0[:, idx, k] for k in sidx]
    return np.array([float(np.sum(kappa * delta * np.abs(w * c))) for c in cols])


def richardson_vec(f, x, j, rel=1e-4, spread=False):
    x = np.array(x, float)
    h = rel * max(1.0, abs(x[j]))
    e = np.zeros(len(x))
    e[j] = h
    d1 = (f(x + e) - f(x - e)) / (2 * h)
    e[j] = h / 2
    d2 = (f(x + e) - f(x - e)) / h
    if spread:
        return (4 * d2 - d1) / 3.0, np.abs(d2 - d1)
    return (4 * d2 - d1) / 3.0


# ---------------------------------------------------------------------------------------------------
# C18 fit
# ---------------------------------------------------------------------------------------------------
def fit_call(sess, op, step, out, stats, log):
    obj = sess.loss.get(op["id"])
    if obj is None:
        return
    d = sess.lossdef[op["id"]]
    start = np.array(op["start"], float)
    lb = np.array(op["lb"], float)
    ub = np.array(op["ub"], float)
    how = op.get("bounds_as", "array")

    def arg(v):
        # the same numbers in the container / number types a caller may use
        if how == "list":
            return [float(x_) for x_ in v]
        if how == "tuple":
            return tuple(float(x_) for x_ in v)
        if how == "int_where_whole":
            if all(float(x_) == int(x_) for x_ in v):
                return np.array([int(x_) for x_ in v], dtype=int)       # e.g. lb = [0, 0]
            return [int(x_) if float(x_) == int(x_) else float(x_) for x_ in v]
        return np.array(v, float)
    try:
        c0 = float(obj.cost(start.copy()))
        if op.get("plain_output"):
            xhat = np.asarray(obj.fit(start.copy(), lb=arg(lb), ub=arg(ub)), float)
        else:
            xhat, info = obj.fit(start.copy(), lb=arg(lb), ub=arg(ub), full_output=True)
            xhat = np.asarray(xhat, float)
            try:
                if not bool(info["success"]):
                    stats["optimiser_reported_failure"] = stats.get("optimiser_reported_failure", 0) + 1   # probe
            except Exception:
                pass
        c1 = float(obj.cost(xhat.copy()))
    except core.RunTimeout:
        raise
    except Exception as e:
        if type(e).__name__ == "IntegrationError":
            # the optimiser stepped to parameters at which the integrator gives up: outside the properties
            stats["integration_failure_outside_domain"] = stats.get("integration_failure_outside_domain", 0) + 1
            return
        out.append(core.crash_failure("C18", e, step, "%s.fit" % d["cls"]))
        return
    _sync_model_theta(sess, d, list(xhat))
    stats["fits"] = stats.get("fits", 0) + 1
    log.append(["fit", step, core.digest(xhat.tolist(), 5)])
    if xhat.shape != start.shape:
        out.append(fail("C18.shape", step, "fit returned shape %s for %d variables" % (xhat.shape, len(start))))
        return
    if np.any(xhat < lb - 1e-12) or np.any(xhat > ub + 1e-12) or not np.all(np.isfinite(xhat)):
        out.append(fail("C18.box", step, "fit returned %s outside the box [%s, %s]" % (xhat.tolist(), lb.tolist(), ub.tolist())))
    if not (np.isfinite(c0) and np.isfinite(c1)) and not np.isfinite(c0):
        # the start lies outside the domain of the cost (e.g. a count likelihood of a slightly negative
        # prediction): "not worse than its start" has no meaning there
        stats["start_cost_not_finite"] = stats.get("start_cost_not_finite", 0) + 1
    elif not np.isfinite(c1) and d["cls"] in ("PoissonLoss", "GammaLoss", "NegBinomLoss") and _prediction_near_zero(sess, d, xhat):
        # the returned point predicts (numerically) zero for a count / gamma likelihood: the integrator's output is
        # +-1e-12 there and the cost is NaN for the negative sign - outside the domain the losses are stated on
        stats["returned_cost_undefined_near_zero_prediction"] = stats.get("returned_cost_undefined_near_zero_prediction", 0) + 1
    elif not (c1 <= c0 + 1e-9 * abs(c0) + 1e-12):
        out.append(fail("C18.descent", step, "cost at the returned point %r exceeds cost at the start %r (start %s -> %s)" % (c1, c0, start.tolist(), xhat.tolist())))
    # the same clause judged by the reference (stated loss of the reference trajectory) instead of by the library's
    # own cost(): a cost() that mis-reports an undefined loss must not be able to vouch for the fit
    try:
        c0r, y0r = ref_cost(sess, d, list(start))
        c1r, y1r = ref_cost(sess, d, list(xhat))
        if np.isfinite(c0r) and np.isfinite(c1r) and np.isfinite(c0):
            slack = loss_slack(d, y0r) + loss_slack(d, y1r) + 1e-6 * (1.0 + abs(c0r))
            stats["fits_judged_by_reference"] = stats.get("fits_judged_by_reference", 0) + 1
            if c1r > c0r + slack and np.all(xhat >= lb - 1e-12) and np.all(xhat <= ub + 1e-12):
                out.append(fail("C18.descent", step, "the stated loss of the true trajectory at the returned point is %r, at the start %r (start %s -> %s; the library's own cost reports %r -> %r)" % (
                    c1r, c0r, start.tolist(), xhat.tolist(), c0, c1)))
    except (refsolve.RefSolveError, ValueError, OverflowError, FloatingPointError):
        pass
    if op.get("at_truth"):
        truth = np.array(op["truth"], float)
        if np.any(np.abs(xhat - truth) > 1e-6 * (1 + np.abs(truth))):
            out.append(fail("C18.truth", step, "started at the generating parameters %s of noise-free data, fit returned %s" % (truth.tolist(), xhat.tolist())))
    if np.any(np.abs(xhat - start) > 1e-9):
        stats["fits_moved"] = stats.get("fits_moved", 0) + 1


def _prediction_near_zero(sess, d, free, eps=1e-6):
    try:
        _, yhat = ref_cost(sess, d, list(free))
        return bool(np.min(yhat) < eps)
    except Exception:
        return True


# ---------------------------------------------------------------------------------------------------
# C20 curvature
# ---------------------------------------------------------------------------------------------------
def curv_call(sess, op, step, out, stats, log):
    obj = sess.loss.get(op["id"])
    if obj is None:
        return
    d = sess.lossdef[op["id"]]
    ref = sess.ref
    free = np.array(op["free"], float)
    which = op["which"]
    stored = bool(op.get("use_stored")) and d["id"] in sess.loss_theta
    if stored:
        free = np.array(sess.loss_theta[d["id"]], float)
        stats["stored_theta_calls"] = stats.get("stored_theta_calls", 0) + 1
    try:
        arg = None if stored else free.copy()
        got = np.asarray(obj.jtj(arg) if which == "jtj" else obj.hessian(arg), float)
    except core.RunTimeout:
        raise
    except Exception as e:
        if integration_failure_outside_domain(sess, d, list(free), e, stats):
            return
        out.append(core.crash_failure("C20", e, step, "%s.%s" % (d["cls"], which)))
        return
    _sync_model_theta(sess, d, list(free))
    _remember_theta(sess, d, list(free))
    stats[which + "_calls"] = stats.get(which + "_calls", 0) + 1
    log.append([which, step, core.digest(got.tolist(), 6)])
    theta, x0 = full_theta(sess, d, list(free))
    idx = [ref.state_names.index(s) for s in d["states"]]
    tp = d.get("target_param")
    pidx = list(range(ref.p)) if tp is None else [ref.param_names.index(nm) for nm in tp]
    T = len(d["obs_t"])
    W = np.ones((T, len(idx))) if d.get("weights") is None else _bcast(d["weights"], (T, len(idx)))
    if which == "jtj":
        X, S, _ = refsolve.solve_sens(ref, theta, x0, sess.t0, d["obs_t"], with_iv=False)
        want = np.zeros((len(pidx), len(pidx)))
        for i in range(T):
            s = S[i][idx][:, pidx] * W[i].reshape(-1, 1)
            want += s.T.dot(s)
        if got.shape != want.shape:
            out.append(fail("C20.jtj.shape", step, "jtj shape %s, expected %s" % (got.shape, want.shape)))
            return
        tol = 1e-5 * (np.abs(want).max() + 1e-12) + 1e-9
        if np.any(np.abs(got - want) > tol):
            out.append(fail("C20.jtj.value", step, "jtj %s, sum of outer products of the weighted sensitivities is %s" % (got.tolist(), want.tolist())))
        if np.any(np.abs(got - got.T) > 1e-9 * (np.abs(got).max() + 1e-12)):
            out.append(fail("C20.jtj.symmetric", step, "jtj is not symmetric: %s" % got.tolist()))
        else:
            ev = np.linalg.eigvalsh((got + got.T) / 2)
            if ev.min() < -1e-9 * max(np.trace(got), 1e-12):
                out.append(fail("C20.jtj.psd", step, "jtj has eigenvalue %r (trace %r)" % (float(ev.min()), float(np.trace(got)))))
        return
    # hessian of the square loss: sum 2 w^2 s s^T - 2 w^2 r d2yhat
    y = np.array(d["y"], float).reshape(T, len(idx))

    def hess_from(second):
        X, S, Wt = second
        H = np.zeros((len(pidx), len(pidx)))
        for i in range(T):
            for a_, si in enumerate(idx):
                w = W[i, a_]
                s = S[i][si][pidx]
                r = y[i, a_] - X[i][si]
                H += 2 * w * w * np.outer(s, s) - 2 * w * w * r * Wt[i][si][np.ix_(pidx, pidx)]
        return H
    true_H = hess_from(refsolve.solve_second_order(ref, theta, x0, sess.t0, d["obs_t"], truncated=False))
    if got.shape != true_H.shape:
        out.append(fail("C20.hessian.shape", step, "hessian shape %s, expected %s" % (got.shape, true_H.shape)))
        return
    scale = np.abs(true_H).max() + 1e-12
    if np.all(np.abs(got - true_H) <= 1e-4 * scale + 1e-8):
        stats["hessian_true"] = stats.get("hessian_true", 0) + 1
        return
    trunc_H = hess_from(refsolve.solve_second_order(ref, theta, x0, sess.t0, d["obs_t"], truncated=True))
    mixed = ref.has_mixed_second_derivative()
    if mixed and np.all(np.abs(got - trunc_H) <= 1e-4 * (np.abs(trunc_H).max() + 1e-12) + 1e-8):
        out.append(fail("C20.hessian.truncated", step, "hessian %s equals the second-order system WITHOUT the mixed state-parameter terms; the true Hessian is %s" % (got.tolist(), true_H.tolist())))
        return
    out.append(fail("C20.hessian.value", step, "hessian %s; derivative of the gradient is %s (truncated-system value %s; model has mixed terms: %s)" % (
        got.tolist(), true_H.tolist(), trunc_H.tolist(), mixed)))


# ---------------------------------------------------------------------------------------------------
# C13 integrated sensitivities
# ---------------------------------------------------------------------------------------------------
def sens_int(sess, op, step, out, stats, log):
    ode, ref = sess.ode, sess.ref
    ou = sess.pg.ou
    n, p = ref.n, ref.p
    grid = [float(v) for v in op["grid"]]
    iv = bool(op.get("iv"))
    method = op.get("method")
    z0 = [sess.x0.copy(), np.zeros(n * p)]
    if iv:
        z0.append(np.eye(n).flatten())
    z0 = np.concatenate(z0)
    try:
        if iv:
            sol = ou.integrateFuncJac(ode.ode_and_sensitivityIV_T, ode.ode_and_sensitivityIV_jacobian_T, z0, sess.t0,
                                      np.array(grid), method=method, full_output=False)
        else:
            sol = ou.integrateFuncJac(ode.ode_and_sensitivity_T, ode.ode_and_sensitivity_jacobian_T, z0, sess.t0,
                                      np.array(grid), method=method, full_output=False)
    except core.RunTimeout:
        raise
    except Exception as e:
        out.append(core.crash_failure("C13", e, step, "integrating the augmented system (iv=%s, method=%s)" % (iv, method)))
        return
    sol = np.asarray(sol, float)
    stats["sens_integrations"] = stats.get("sens_integrations", 0) + 1
    stats["sim_time"] = stats.get("sim_time", 0.0) + (grid[-1] - sess.t0)
    log.append(["sens_int", step, core.digest(sol.tolist(), 6)])
    X, S, S0 = refsolve.solve_sens(ref, sess.theta, sess.x0, sess.t0, grid, with_iv=iv)
    if sol.shape[0] != len(grid) or sol.shape[1] != len(z0):
        out.append(fail("C13.int.shape", step, "integrated augmented system has shape %s" % (sol.shape,)))
        return
    gotS = sol[:, n:n + n * p].reshape(len(grid), p, n).transpose(0, 2, 1)      # vec_F: index i + k*n
    tol = 1e-4 * (np.abs(S).max() + 1.0)
    if np.any(np.abs(gotS - S) > tol):
        k = np.unravel_index(int(np.argmax(np.abs(gotS - S))), S.shape)
        out.append(fail("C13.int.dtheta", step, "dx/dtheta at t=%r, state %d, parameter %d: %r, reference variational solution %r" % (
            grid[k[0]], k[1], k[2], float(gotS[k]), float(S[k]))))
    if iv:
        gotS0 = sol[:, n + n * p:].reshape(len(grid), n, n).transpose(0, 2, 1)
        tol0 = 1e-4 * (np.abs(S0).max() + 1.0)
        if np.any(np.abs(gotS0 - S0) > tol0):
            k = np.unravel_index(int(np.argmax(np.abs(gotS0 - S0))), S0.shape)
            out.append(fail("C13.int.dx0", step, "dx/dx0 at t=%r, state %d, initial state %d: %r, reference %r" % (
                grid[k[0]], k[1], k[2], float(gotS0[k]), float(S0[k]))))
    # cross-check the reference itself against finite differences of reference solutions
    if p and op.get("fd_check"):
        k = op["fd_check"] % p
        h = 1e-5 * max(1.0, abs(sess.theta[k]))
        thp = list(sess.theta)
        thm = list(sess.theta)
        thp[k] += h
        thm[k] -= h
        fd = (refsolve.solve(ref, thp, sess.x0, sess.t0, grid) - refsolve.solve(ref, thm, sess.x0, sess.t0, grid)) / (2 * h)
        if np.any(np.abs(fd - S[:, :, k]) > 1e-4 * (np.abs(S).max() + 1.0)):
            raise core.HarnessError("reference variational solution disagrees with finite differences of reference solutions")
        if np.any(np.abs(gotS[:, :, k] - fd) > 2e-4 * (np.abs(S).max() + 1.0)):
            out.append(fail("C13.int.fd", step, "dx/dtheta_%d does not match finite differences of solutions" % k))


_OPS = {"solve": run_solve, "rebind": rebind, "loss_new": loss_new, "cost": loss_call, "grad": grad_call, "fit": fit_call,
        "curv": curv_call, "sens_int": sens_int}


def execute(case, keep_prefix=None):
    out, stats, log = [], {}, []
    sess = None
    try:
        try:
            sess = Session(case)
            sess.model_theta = list(case["theta"])
        except core.HarnessError:
            raise
        except core.RunTimeout:
            raise
        except Exception as e:
            out.append(core.crash_failure((keep_prefix or ("C02.",))[0][:3], e, -1, "model construction"))
            return finish(case, out, stats, log, sess, keep_prefix)
        for step, op in enumerate(case["ops"]):
            try:
                if op["op"] == "owner":
                    owner_ops(sess, op, step, stats, log)
                elif op["op"] in _OPS:
                    _OPS[op["op"]](sess, op, step, out, stats, log)
                else:
                    raise core.HarnessError("unknown op %r" % op["op"])
            except refsolve.RefSolveError:
                stats["reference_failed"] = stats.get("reference_failed", 0) + 1
    finally:
        if sess is not None:
            sess.close()
    return finish(case, out, stats, log, sess, keep_prefix)


def finish(case, out, stats, log, sess, keep_prefix):
    if keep_prefix:
        out = [f for f in out if f["oracle"].startswith(tuple(keep_prefix))]
    seen, uniq = set(), []
    for f in out:
        if f["oracle"] not in seen:
            seen.add(f["oracle"])
            uniq.append(f)
    log.append(["failures", sorted(seen)])
    return {"failures": uniq, "stats": stats, "log": log, "faults": sess.fired() if sess is not None else {},
            "nontrivial": False, "measure": []}


# ---------------------------------------------------------------------------------------------------
# reductions
# ---------------------------------------------------------------------------------------------------
def reductions(case):
    c = case

    def clone():
        return copy.deepcopy(c)
    ops = c["ops"]
    for i in range(len(ops) - 1, -1, -1):
        if ops[i]["op"] == "loss_new":
            continue
        d = clone()
        del d["ops"][i]
        yield d
    env = c.get("env", {})
    if env.get("I", "native") != "native":
        d = clone()
        d["env"]["I"] = "native"
        d["batch"] = "fault_free"
        yield d
    if env.get("K", {"backend": "lambda"}) != {"backend": "lambda"}:
        d = clone()
        d["env"]["K"] = {"backend": "lambda"}
        yield d
    for i, op in enumerate(ops):
        if op["op"] in ("solve", "sens_int") and len(op["grid"]) > 2:
            d = clone()
            d["ops"][i]["grid"] = op["grid"][:max(2, len(op["grid"]) // 2)]
            yield d
        if op["op"] == "solve" and op.get("gtype", "array") not in ("array",) and len(op["grid"]) > 1:
            d = clone()
            d["ops"][i]["gtype"] = "array"
            yield d
    for pr in c["model"].get("processes", []):
        if pr.get("route", "event") != "event":
            d = clone()
            for q in d["model"]["processes"]:
                q["route"] = "event"
            yield d
            break


# ---------------------------------------------------------------------------------------------------
# generators shared by several properties
# ---------------------------------------------------------------------------------------------------
METHODS = [None, "lsoda", "vode", "ivode", "dopri5", "dop853"]


def env_for(S, tier):
    frng = S("faults")
    pol = frng.choice(["native", "native", "fresh", "reuse", "reuse"])
    kenv = {"backend": "lambda"} if frng.random() < 0.7 else {"plan": [frng.choice(["numpy", "numpy", "mpmath"])]}
    batch = "fault_injecting" if (pol == "reuse" or "plan" in kenv) else "fault_free"
    return {"I": pol, "K": kenv}, batch


def gen_solve_ops(rng, t0, tmax, count):
    ops = []
    for _ in range(count):
        grid = gen_times(rng, t0, tmax)
        entry = rng.choice(["integrate", "solve_determ", "integrate2", "integrate2", "funcjac", "funcjac", "funcjac"])
        op = {"op": "solve", "entry": entry, "grid": grid, "gtype": rng.choice(["array", "array", "list", "tuple"])}
        if rng.random() < 0.2:
            # whole-number grids with an integer dtype (the initial time may still be fractional)
            first = int(math.floor(t0)) + 1
            k = rng.randint(2, 8)
            step = rng.choice([1, 1, 2])
            ints = [first + j * step for j in range(k) if first + j * step <= t0 + max(tmax, 3)]
            if len(ints) >= 2:
                op["grid"] = [float(v) for v in ints]
                op["gtype"] = rng.choice(["int_array", "int_list", "int_tuple"])
        if rng.random() < 0.08:
            op["grid"] = grid[-1:]
            op["gtype"] = "scalar"
        if entry in ("integrate2", "funcjac"):
            op["method"] = rng.choice(METHODS)
        if entry in ("integrate", "integrate2"):
            op["full_output"] = rng.random() < 0.25
        if entry == "funcjac":
            op["full_output"] = rng.random() < 0.4
            op["include_origin"] = rng.random() < 0.5
            if rng.random() < 0.2:
                op["nsteps"] = rng.choice([5, 15, 40, 120])    # a small step budget: some intervals will not fit
        ops.append(op)
    return ops


def gen_long_gap_op(rng, t0):
    """A sparse grid whose gaps span many periods of an oscillator (each interval needs hundreds to thousands of
    internal integrator steps)."""
    k = rng.randint(1, 4)
    ts, t = [], t0
    odeint = rng.random() < 0.7
    for _ in range(k):
        t += rng.uniform(15.0, 60.0) if odeint else rng.uniform(10.0, 30.0)
        if t - t0 > 150.0:
            break
        ts.append(float(round(t, 3)))
    if not ts:
        ts = [float(round(t0 + 40.0, 3))]
    if rng.random() < 0.3:
        ts = [float(round(t0 + rng.uniform(0.2, 1.0), 3)), float(round(t0 + rng.uniform(1.2, 2.0), 3))] + ts
    op = {"op": "solve", "entry": rng.choice(["integrate", "integrate", "solve_determ"]) if odeint else rng.choice(["integrate2", "funcjac"]),
          "grid": ts, "gtype": rng.choice(["array", "list"]), "long": True}
    if not odeint:
        op["method"] = rng.choice(METHODS)
        if op["entry"] == "funcjac":
            op["full_output"] = rng.random() < 0.4
            op["include_origin"] = rng.random() < 0.5
    return op


def gen_sens_case(S, tier, prop):
    rng = S("gen")
    for _ in range(50):
        name, model, theta, x0, t0, tmax, box, pos = pick_problem(rng, random_frac=0.4)
        ref = RefModel(model, insertion_order(model))
        grid = gen_times(rng, t0, min(tmax, 8.0), k=rng.randint(2, 6))
        if safe_reference(ref, theta, x0, t0, grid) is None:
            continue
        env, batch = env_for(S, tier)
        ops = []
        for _k in range(rng.randint(1, 2)):
            ops.append({"op": "sens_int", "grid": grid, "iv": rng.random() < 0.5, "method": rng.choice(METHODS),
                        "fd_check": rng.randrange(8) if rng.random() < 0.5 else None})
        return {"engine": "solver", "problem": name, "model": model, "theta": theta, "x0": x0, "t0": t0, "env": env,
                "ops": ops, "batch": batch}
    raise core.HarnessError("no sens case")


LOSSES = ["SquareLoss", "NormalLoss", "PoissonLoss", "GammaLoss", "NegBinomLoss"]


def gen_loss_def(rng, lid, ref, name, theta_true, x0, t0, tmax, box, pos, classes=None, allow_targets=True,
                 allow_weights=True, force_noise_free=None, force_states=None, min_yhat=1e-3):
    """One loss-object definition (JSON) with its data."""
    classes = classes or LOSSES
    cls = rng.choice(classes)
    if cls in ("PoissonLoss", "GammaLoss", "NegBinomLoss") and not pos:
        cls = rng.choice(["SquareLoss", "NormalLoss"])
    n, p = ref.n, ref.p
    obs_t = gen_times(rng, t0, tmax, k=rng.randint(3, 12), uniform=rng.random() < 0.3)
    obs_as = "float"
    if rng.random() < 0.2 and tmax >= 4:
        # whole-number observation times handed over with an integer dtype (days 1, 2, 3, ...)
        first = int(math.floor(t0)) + 1
        step = rng.choice([1, 1, 2])
        ints = [first + j * step for j in range(rng.randint(3, 10)) if first + j * step <= t0 + tmax]
        if len(ints) >= 3:
            obs_t = [float(v) for v in ints]
            obs_as = rng.choice(["int_array", "int_list"])
    if rng.random() < 0.15 and len(obs_t) >= 3:
        # replicate measurements: the same observation time appears more than once
        for _r in range(rng.randint(1, 2)):
            j = rng.randrange(0, len(obs_t))
            obs_t = obs_t[:j + 1] + [obs_t[j]] + obs_t[j + 1:]
    ns = rng.choice([1, 1, 2, 2, 3])
    ns = min(ns, n)
    states = rng.sample(ref.state_names, ns)           # any order
    if force_states:
        states = list(force_states)
        ns = len(states)
    X = safe_reference(ref, theta_true, x0, t0, obs_t)
    if X is None:
        return None
    idx = [ref.state_names.index(s) for s in states]
    yhat = X[:, idx]
    if cls in ("PoissonLoss", "GammaLoss", "NegBinomLoss") and yhat.min() < min_yhat:
        return None
    noise_free = force_noise_free if force_noise_free is not None else (cls in ("SquareLoss", "NormalLoss") and rng.random() < 0.5)
    if noise_free:
        y = yhat.copy()
    else:
        pert = np.array([[rng.uniform(-0.15, 0.15) for _ in idx] for _ in obs_t])
        y = yhat * (1.0 + pert)
    if cls in ("PoissonLoss", "NegBinomLoss"):
        y = np.rint(y * (1.0 if yhat.max() > 3 else 1.0))
        y = np.maximum(y, 0.0)
    if cls == "GammaLoss":
        y = np.maximum(y, 1e-3)
    d = {"op": "loss_new", "id": lid, "cls": cls, "states": states, "obs_t": obs_t, "obs_as": obs_as, "y": y.tolist(),
         "noise_free": bool(noise_free and cls in ("SquareLoss", "NormalLoss"))}
    T = len(obs_t)
    if ns == 1:
        d["y_flat"] = rng.random() < 0.7
        d["state_as_str"] = rng.random() < 0.5
    d["x0_as"] = rng.choice(["array", "array", "int_array", "int_list"])
    # spread
    if cls in ("NormalLoss", "GammaLoss", "NegBinomLoss") and rng.random() < 0.7:
        if rng.random() < 0.5:
            d["spread"] = round(rng.uniform(0.5, 3.0), 3)
        else:
            if ns == 1:
                d["spread"] = [round(rng.uniform(0.5, 3.0), 3) for _ in range(T)]
            else:
                d["spread"] = [[round(rng.uniform(0.5, 3.0), 3) for _ in range(ns)] for _ in range(T)]
    # weights: non-unit only where the cost uses them
    if allow_weights and cls in ("SquareLoss", "NormalLoss") and rng.random() < 0.5:
        r = rng.random()
        if r < 0.3:
            d["weights"] = round(rng.uniform(0.3, 2.0), 3)
        elif ns == 1:
            d["weights"] = [round(rng.uniform(0.3, 2.0), 3) for _ in range(T)]
        elif r < 0.65 and ns != T:
            d["weights"] = [round(rng.uniform(0.3, 2.0), 3) for _ in range(ns)]
        else:
            d["weights"] = [[round(rng.uniform(0.3, 2.0), 3) for _ in range(ns)] for _ in range(T)]
    if d.get("weights") is not None and not isinstance(d["weights"], float) and rng.random() < 0.25:
        # structured weights whose mean is exactly 1 (0.5 / 1.5 alternating, a down-weighted and an up-weighted
        # observation, normalised weights): not unit weights, although every summary of them looks like it
        def pat(k_):
            v_ = [0.5 if j % 2 == 0 else 1.5 for j in range(k_)]
            if k_ % 2 == 1:
                v_[-1] = 1.0
            if rng.random() < 0.4 and k_ >= 2:
                v_ = [1.0] * k_
                v_[0], v_[-1] = 0.25, 1.75
            return v_
        w_ = d["weights"]
        if isinstance(w_[0], list):
            flat = pat(len(w_) * len(w_[0]))
            d["weights"] = [flat[i * len(w_[0]):(i + 1) * len(w_[0])] for i in range(len(w_))]
        else:
            d["weights"] = pat(len(w_))
    if d.get("weights") is not None and isinstance(d["weights"], list) and isinstance(d["weights"][0], list) \
            and len(d["weights"][0]) >= 2 and rng.random() < 0.3:
        # single observations switched off: a zero weight in some but not all series of a time point
        for _ in range(rng.randint(1, 3)):
            d["weights"][rng.randrange(len(d["weights"]))][rng.randrange(len(d["weights"][0]))] = 0.0
    if allow_targets and p >= 2 and rng.random() < 0.4:
        d["target_param"] = rng.sample(ref.param_names, rng.randint(1, p - 1 if rng.random() < 0.7 else p))
    if allow_targets and rng.random() < 0.3:
        d["target_state"] = rng.sample(ref.state_names, rng.randint(1, n))
    if d.get("target_param") is not None and d.get("target_state") is None and len(d["target_param"]) + n == p:
        # PyGOM dispatches costIV input on its length; (targets + all states) == (all parameters) is
        # read as a user error.  Ambiguity of the API, outside the properties: not generated.
        d["target_state"] = list(ref.state_names)
    ntp = p if d.get("target_param") is None else len(d["target_param"])
    names = ref.param_names if d.get("target_param") is None else d["target_param"]
    d["theta0"] = [rand_in_box(rng, box[ref.param_names.index(nm)]) for nm in names]
    return d


def rand_in_box(rng, b, margin=0.1):
    lo, hi = b
    return round(rng.uniform(lo + margin * (hi - lo), hi - margin * (hi - lo)), 4)


def free_vector(rng, ref, d, box, x0, truth=None, with_iv=False):
    """A free-variable vector for loss definition d: targeted parameters (in the supplied order), then,
    if with_iv, the targeted initial values."""
    names = ref.param_names if d.get("target_param") is None else d["target_param"]
    if truth is not None:
        v = [truth[ref.param_names.index(nm)] for nm in names]
    else:
        v = [rand_in_box(rng, box[ref.param_names.index(nm)]) for nm in names]
    if with_iv:
        snames = ref.state_names if d.get("target_state") is None else d["target_state"]
        for nm in snames:
            base = x0[ref.state_names.index(nm)]
            v.append(base if truth is not None and rng.random() < 0.5 else round(base * rng.uniform(0.8, 1.2) + rng.uniform(0.0, 0.02), 5))
    return v


def gen_owner_op(rng, ref, d, box, x0, t0, tmax):
    r = rng.random()
    if r < 0.6:
        if d.get("target_param") is not None:
            names = list(d["target_param"])            # only the targeted ones (see DESIGN C06)
            return {"op": "owner", "kind": "scramble", "names": names,
                    "values": [rand_in_box(rng, box[ref.param_names.index(nm)]) for nm in names]}
        return {"op": "owner", "kind": "scramble", "values": [rand_in_box(rng, b) for b in box]}
    if r < 0.8:
        return {"op": "owner", "kind": "integrate", "x0": [round(v * rng.uniform(0.5, 1.5), 4) for v in x0],
                "grid": gen_times(rng, t0, tmax, k=3)}
    return {"op": "owner", "kind": "evaluate", "x": [round(abs(v) + 0.1, 4) for v in x0], "t": t0}


def gen_extend_op(rng, ref):
    """A gentle in-place extension of the shared model (same states and parameters): a dissipative or mass-moving
    term with a small coefficient, often non-linear in the states, valid for states of either sign."""
    names = ref.state_names
    X = rng.choice(names)
    others = [s_ for s_ in names if s_ != X]
    c = rng.choice(["0.03", "0.08", "0.15"])
    shape = rng.choice(["%s*%s" % (c, X), "%s*%s**3/(1+%s*%s)" % (c, X, X, X), "%s*%s/(1+%s*%s)" % (c, X, X, X)])
    r = rng.random()
    if r < 0.4 and others:
        Y = rng.choice(others)
        pr = {"rate": shape, "trans": [{"type": "T", "o": X, "d": Y, "mag": "1"}]}
        return {"op": "owner", "kind": "extend", "proc": pr, "route": rng.choice(["add_event", "add_legacy", "add_trans_event"])}
    if r < 0.7:
        pr = {"rate": shape, "trans": [{"type": "D", "o": X, "mag": "1"}]}
        return {"op": "owner", "kind": "extend", "proc": pr, "route": rng.choice(["add_event", "add_legacy"])}
    return {"op": "owner", "kind": "extend", "state": X, "eq": "-" + shape}


def gen_loss_case(S, tier, prop, kinds, classes=None, allow_targets=True, nloss=None):
    """kinds: which calls to generate: subset of {'cost','costIV','residual','sensitivity','gradient',
    'sensitivityIV','jac','jtj','hessian'}"""
    rng = S("gen")
    srng = S("sched")
    for _ in range(100):
        need_pos = classes is None or any(c in ("PoissonLoss", "GammaLoss", "NegBinomLoss") for c in (classes or LOSSES))
        name, model, theta, x0, t0, tmax, box, pos = pick_problem(rng, random_frac=0.25,
                                                                   positive=True if (need_pos and rng.random() < 0.7) else None)
        ref = RefModel(model, insertion_order(model))
        if name == "random":
            box = [[max(0.05, th * 0.5), th * 1.6] for th in theta]
        tm = min(tmax, 10.0 if name != "SIR" else 30.0)
        defs = []
        for li in range(nloss or rng.choice([1, 1, 2])):
            # a second loss object on the same model always drives all parameters
            d = gen_loss_def(rng, "L%d" % (li + 1), ref, name, theta, x0, t0, tm, box, pos, classes=classes,
                             allow_targets=allow_targets and li == 0)
            if d is None:
                break
            d["prop"] = prop
            defs.append(d)
        else:
            env, batch = env_for(S, tier)
            ops = list(defs)
            calls = []
            for d in defs:
                for _k in range(srng.randint(1, 3)):
                    kind = srng.choice(kinds)
                    at_truth = srng.random() < 0.3
                    iv = kind in ("costIV", "sensitivityIV")
                    free = free_vector(srng, ref, d, box, x0, truth=theta if at_truth else None, with_iv=iv)
                    if kind in ("cost", "costIV", "residual"):
                        calls.append({"op": "cost", "id": d["id"], "what": kind, "free": free,
                                      "at_truth": bool(at_truth and d.get("target_param") is None and not iv)})
                    elif kind in ("sensitivity", "gradient", "sensitivityIV", "jac"):
                        calls.append({"op": "grad", "id": d["id"], "which": kind, "free": free,
                                      "method": srng.choice([None, None, "lsoda", "vode", "dopri5"]) if kind != "gradient" else None})
                    else:
                        calls.append({"op": "curv", "id": d["id"], "which": kind, "free": free})
                    if iv and srng.random() < 0.35:
                        # a profile over the initial values: the same parameters again, other initial values
                        npar_ = len(d["target_param"]) if d.get("target_param") is not None else ref.p
                        f2 = free_vector(srng, ref, d, box, x0, truth=None, with_iv=True)
                        second = copy.deepcopy(calls[-1])
                        second["free"] = list(free[:npar_]) + list(f2[npar_:])
                        second.pop("at_truth", None)
                        second["follows"] = True           # stays directly behind the call before it
                        calls.append(second)
                    if kind in ("cost", "residual", "sensitivity", "gradient", "jac", "jtj", "hessian") and srng.random() < 0.3:
                        # called without an argument: at the parameters the object was last given (used only
                        # when an earlier call gave it some; otherwise the explicit vector is passed)
                        calls[-1]["use_stored"] = True
            groups = []
            for c in calls:
                if c.pop("follows", False) and groups:
                    groups[-1].append(c)
                else:
                    groups.append([c])
            srng.shuffle(groups)
            calls = [c for g in groups for c in g]
            sched = []
            extend_at = srng.randrange(1, len(calls)) if (len(calls) >= 2 and srng.random() < 0.12) else None
            for ci, c in enumerate(calls):
                if ci == extend_at:
                    # the owner extends the shared model in place between two calls of the loss objects
                    sched.append(gen_extend_op(srng, ref))
                    batch = "fault_injecting"
                if srng.random() < 0.4:
                    dd = [d for d in defs if d["id"] == c["id"]][0]
                    sched.append(gen_owner_op(srng, ref, dd, box, x0, t0, tm))
                    batch = "fault_injecting"
                sched.append(c)
            return {"engine": "solver", "problem": name, "model": model, "theta": theta, "x0": x0, "t0": t0,
                    "env": env, "ops": ops + sched, "batch": batch, "box": box}
    raise core.HarnessError("no loss case")

"""Engine "repro": seed/run histories on ONE object (C16).  The simulator's own determinism test
applied to PyGOM: seed(s); op; [other consumers]; seed(s); op must be bit-identical, seed(s') must
differ, and no generator may be constructed from OS entropy during a serial run."""
import copy

import numpy as np
import scipy.stats

from .. import core, seams
from ..build import build_model, np_time, insertion_order
from ..refmodel import RefModel
from . import jump, solver

fail = core.fail


class EntropyProbe(object):
    """Counts generators built without a seed (i.e. from OS entropy) while installed."""

    def __init__(self):
        self.count = 0
        self._rs = np.random.RandomState
        self._dr = np.random.default_rng
        probe = self

        class ProbedRandomState(self._rs):
            def __init__(self, seed=None, *a, **k):
                if seed is None:
                    probe.count += 1
                super().__init__(seed, *a, **k)

        def probed_default_rng(seed=None, *a, **k):
            if seed is None:
                probe.count += 1
            return probe._dr(seed, *a, **k)
        self._prs = ProbedRandomState
        self._pdr = probed_default_rng

    def __enter__(self):
        np.random.RandomState = self._prs
        np.random.default_rng = self._pdr
        return self

    def __exit__(self, *a):
        np.random.RandomState = self._rs
        np.random.default_rng = self._dr


def make_params(pg, spec, ref, partial=False):
    """Build the parameters dict from a JSON spec: name -> number | ['frozen', dist, args] | ['tuple', sampler, args|kwargs]"""
    out = {}
    for nm in ref.param_names:
        if partial and nm not in spec:
            continue
        v = spec[nm]
        if isinstance(v, (int, float)):
            out[nm] = v
        elif v[0] == "frozen":
            dist = getattr(scipy.stats, v[1])
            out[nm] = dist(*v[2]["args"], **v[2].get("kw", {}))
        elif v[0] == "tuple":
            f = getattr(pg.ur, v[1])
            out[nm] = (f, tuple(v[2])) if isinstance(v[2], list) else (f, dict(v[2]))
        else:
            raise core.HarnessError("param spec %r" % (v,))
    return out


def run_op(sess, op):
    """Execute one reproducibility-relevant call; return a canonical nested-list result."""
    ode = sess["ode"]
    kind = op["kind"]
    if kind in ("stoch", "stoch_grid"):
        ode.pre_tau = op.get("pre_tau")
        if kind == "stoch":
            t = np_time(op["T"])
        else:
            t = np.array(op["grid"], float)
        X, J, T = ode.solve_stochast(t, int(op["n"]), exact=bool(op["exact"]), full_output=True)
        res = [[np.asarray(x, float).tolist() for x in X], [np.asarray(j, float).tolist() for j in J],
               [np.asarray(tt, float).tolist() for tt in T] if kind == "stoch" else np.asarray(T, float).tolist()]
        nev = sum(len(x) - 1 for x in X) if kind == "stoch" else 0
        return res, {"events": nev}, None
    if kind in ("simparam", "determ"):
        t = np.array(op["grid"], float)
        if kind == "simparam":
            Y, Yall = ode.simulate_param(t, int(op["n"]), full_output=True)
        else:
            Y, Yall = ode.solve_determ(t, int(op["n"]), full_output=True)
        Y = np.asarray(Y, float)
        Yall = [np.asarray(y, float) for y in Yall]
        return [Y.tolist(), [y.tolist() for y in Yall]], {"solves": len(Yall)}, (Y, Yall)
    raise core.HarnessError("kind %r" % kind)


def execute(case):
    pg = core.boot()
    out, stats, log = [], {}, []
    model = case["model"]
    ref = RefModel(model, insertion_order(model))
    try:
        # assigning random parameters draws a first value from numpy's global generator: start it from the case
        # (one run = one repeatable execution, whatever the process did before)
        np.random.seed(int(case.get("run_seed", 0)) % (2 ** 32))
        ode = build_model(pg, model, backend="lambda")
        if case.get("param_spec"):
            ode.parameters = make_params(pg, case["param_spec"], ref)
            if case.get("param_respec"):
                # a second assignment that re-defines some of the random parameters on a model that already holds some
                ode.parameters = make_params(pg, case["param_respec"], ref, partial=True)
        elif ref.p:
            ode.parameters = list(case["theta"])
        ode.initial_values = (np.array(case["x0"], float), np_time(case["t0"]))
    except core.HarnessError:
        raise
    except Exception as e:
        out.append(core.crash_failure("C16", e, -1, "model construction"))
        return {"failures": out, "stats": stats, "log": log, "faults": {}, "measure": [], "nontrivial": False}
    sess = {"ode": ode}
    rseam = seams.RSeam(pg.ss, mode="natural", cap=int(5e6)).install()
    interleaves = 0
    nontrivial = False
    try:
        for step, op in enumerate(case["ops"]):
            s1, s2 = int(op["seed"]), int(op["seed2"])
            try:
                with EntropyProbe() as probe:
                    if op.get("pre_consume"):
                        np.random.random(int(op["pre_consume"]))
                        interleaves += 1
                    np.random.seed(s1)
                    rseam.reset_log()
                    r1, st1, raw1 = run_op(sess, op)
                    ndraw = len(rseam.log)
                    if op.get("mid_consume"):
                        np.random.standard_normal(int(op["mid_consume"]))
                        np.random.poisson(3.0, 2)
                        interleaves += 1
                    np.random.seed(s1)
                    r2, _, _ = run_op(sess, op)
                    np.random.seed(s2)
                    r3, _, _ = run_op(sess, op)
                    entropy = probe.count
            except (seams.StepCap, seams.Explosion):
                stats["inconclusive"] = stats.get("inconclusive", 0) + 1
                continue
            except core.RunTimeout:
                raise
            except Exception as e:
                out.append(core.crash_failure("C16", e, step, "%s" % op["kind"]))
                continue
            for k_, v in st1.items():
                stats[k_] = stats.get(k_, 0) + 3 * v
            log.append(["op", step, op["kind"], core.digest(r1)])
            d1, d2, d3 = core.digest(r1), core.digest(r2), core.digest(r3)
            if d1 != d2:
                out.append(fail("C16.same_seed", step, "%s repeated after np.random.seed(%d) on the same object gave a different result" % (op["kind"], s1)))
            # a stochastic run proves consumption by having at least one accepted step (a path that
            # stops on its first, illegal, step consumed draws but shows none of them)
            # Only exact paths carry continuous event times; tau-leap output is discrete (fixed or
            # rate-determined step, Poisson counts) and may coincide across streams with positive probability.
            consumed = (ndraw > 0 and st1.get("events", 0) > 0 and bool(op.get("exact"))) or op["kind"] in ("simparam", "determ")
            if consumed:
                nontrivial = True
                # gridded integer states may legitimately coincide for different streams; raw paths carry
                # continuous event times and random-parameter solutions are continuous: those must differ
                if d1 == d3 and op["kind"] != "stoch_grid":
                    out.append(fail("C16.different_seed", step, "%s gave identical output for seeds %d and %d although %d random draws were consumed" % (op["kind"], s1, s2, ndraw)))
            if entropy:
                out.append(fail("C16.entropy", step, "%d generator(s) were constructed from OS entropy during a serial %s" % (entropy, op["kind"])))
            if raw1 is not None:
                Y, Yall = raw1
                want = np.mean(np.array(Yall), axis=0)
                if Y.shape != want.shape or np.any(np.abs(Y - want) > 1e-12 * (1 + np.abs(want))):
                    out.append(fail("C16.mean", step, "reported mean trajectory differs from the mean of the %d runs returned alongside it (max diff %r)" % (
                        len(Yall), float(np.abs(Y - want).max()) if Y.shape == want.shape else "shape")))
                if len(Yall) != int(op["n"]):
                    out.append(fail("C16.mean", step, "asked %d iterations, %d returned" % (int(op["n"]), len(Yall))))
    finally:
        rseam.remove()
    seen, uniq = set(), []
    for f in out:
        if f["oracle"] not in seen:
            seen.add(f["oracle"])
            uniq.append(f)
    log.append(["failures", sorted(seen)])
    faults = {"H.interleave": interleaves} if interleaves else {}
    return {"failures": uniq, "stats": stats, "log": log, "faults": faults, "measure": [], "nontrivial": nontrivial}


def gen_case(S, tier):
    rng = S("gen")
    kind = rng.choice(["stoch", "stoch", "stoch_grid", "simparam", "determ"])
    if kind in ("stoch", "stoch_grid"):
        base = jump.gen_case(S, tier, "C16", {"scripted": False, "single": True})
        op0 = base["ops"][0]
        T = op0["T"]
        op = {"kind": kind, "exact": op0["exact"], "n": rng.choice([1, 2, 3]), "pre_tau": op0.get("pre_tau")}
        if kind == "stoch":
            op["T"] = T
        else:
            op["grid"] = jump.gen_grid(rng, base["t0"], T)
        case = {"engine": "repro", "model": base["model"], "theta": base["theta"], "x0": base["x0"], "t0": base["t0"]}
        if rng.random() < 0.15:
            # a large population under tau-leap: 1e4 .. 1e6 expected firings per leap (code paths that depend
            # on the size of a count or a rate are only reached here)
            N = rng.choice([2e5, 1e6, 5e6, 2e7])
            frac = rng.choice([0.02, 0.2])
            big = {"states": [{"name": "S"}, {"name": "I"}, {"name": "R"}], "params": ["beta", "gamma", "N"],
                   "processes": [{"rate": "beta*S*I/N", "route": "event", "trans": [{"type": "T", "o": "S", "d": "I", "mag": "1"}]},
                                 {"rate": "gamma*I", "route": "event", "trans": [{"type": "T", "o": "I", "d": "R", "mag": "1"}]}]}
            if rng.random() < 0.5:
                big["processes"].append({"rate": "0.01*gamma*R", "route": "event", "trans": [{"type": "T", "o": "R", "d": "S", "mag": "1"}]})
            case.update({"model": big, "theta": [round(rng.uniform(0.8, 2.5), 3), round(rng.uniform(0.2, 0.6), 3), N],
                         "x0": [float(round(N * (1 - frac))), float(round(N * frac)), 0.0], "t0": 0.0})
            op["exact"] = False
            op["pre_tau"] = rng.choice([None, None, 0.05])
            op["n"] = rng.choice([1, 2])
            Tbig = rng.choice([1.0, 3.0, 6.0])
            if kind == "stoch":
                op["T"] = Tbig
            else:
                op["grid"] = [round(Tbig * (j + 1) / 4.0, 4) for j in range(4)]
            base = dict(base, theta=case["theta"], model=big)
        if rng.random() < 0.3 and base["theta"]:
            # random parameters re-drawn for every path of a stochastic simulation
            ref_ = RefModel(base["model"])
            spec = {}
            for nm, th in zip(ref_.param_names, base["theta"]):
                r = rng.random()
                if r < 0.4:
                    spec[nm] = th
                elif r < 0.7:
                    spec[nm] = ["frozen", "gamma", {"args": [80.0], "kw": {"scale": th / 80.0}}]
                elif r < 0.85:
                    spec[nm] = ["tuple", "rgamma", [80.0, 80.0 / th]]
                else:
                    spec[nm] = ["tuple", "runif", {"min": th * 0.95, "max": th * 1.05}]
            if any(isinstance(v, list) for v in spec.values()):
                case["param_spec"] = spec
    else:
        for _ in range(100):
            name, model, theta, x0, t0, tmax, box, pos = solver.pick_problem(rng, random_frac=0.0)
            ref = RefModel(model)
            spec = {}
            nrand = 0
            for nm, th in zip(ref.param_names, theta):
                r = rng.random()
                if r < 0.4:
                    spec[nm] = th
                elif r < 0.7:
                    # gamma with mean th and shape 50: stays well inside the box
                    spec[nm] = ["frozen", "gamma", {"args": [50.0], "kw": {"scale": th / 50.0}}]
                    nrand += 1
                elif r < 0.85:
                    spec[nm] = ["tuple", "rgamma", [50.0, 50.0 / th]]
                    nrand += 1
                else:
                    spec[nm] = ["tuple", "runif", {"min": th * 0.9, "max": th * 1.1}]
                    nrand += 1
            if nrand == 0:
                continue
            grid = solver.gen_times(rng, t0, min(tmax, 8.0), k=rng.randint(2, 6))
            # iteration counts of very different size (chunked or blocked implementations change behaviour with it)
            op = {"kind": kind, "grid": grid, "n": rng.choice([2, 3, 5, 2, 3, 5, 2, 3, 5, 7, 16, 33, 65, 100, 130, 300])}
            if op["n"] > 16:
                op["grid"] = grid[:3]
            case = {"engine": "repro", "problem": name, "model": model, "theta": theta, "x0": x0, "t0": t0, "param_spec": spec}
            break
        else:
            raise core.HarnessError("no random-parameter case")
    if case.get("param_spec") and rng.random() < 0.3:
        rnd = [nm for nm, v in case["param_spec"].items() if isinstance(v, list)]
        if rnd:
            respec = {}
            for nm in rng.sample(rnd, rng.randint(1, len(rnd))):
                v = case["param_spec"][nm]
                th = v[2]["kw"]["scale"] * v[2]["args"][0] if v[0] == "frozen" else None
                if v[0] == "frozen":
                    respec[nm] = ["frozen", "gamma", {"args": [60.0], "kw": {"scale": th / 60.0}}]
                else:
                    respec[nm] = v
            case["param_respec"] = respec
    ops = []
    for _ in range(rng.randint(1, 2) if tier != "thorough" else rng.randint(1, 4)):
        o = dict(op)
        o["seed"] = rng.randrange(2 ** 32)
        o["seed2"] = (o["seed"] + 1 + rng.randrange(1000)) % (2 ** 32)
        if rng.random() < 0.6:
            o["pre_consume"] = rng.randint(1, 50)
        if rng.random() < 0.6:
            o["mid_consume"] = rng.randint(1, 50)
        ops.append(o)
    case["ops"] = ops
    case["batch"] = "fault_injecting" if any(o.get("pre_consume") or o.get("mid_consume") for o in ops) else "fault_free"
    return case


def reductions(case):
    c = case
    if len(c["ops"]) > 1:
        for i in range(len(c["ops"])):
            d = copy.deepcopy(c)
            del d["ops"][i]
            yield d
    for i, op in enumerate(c["ops"]):
        for key in ("pre_consume", "mid_consume"):
            if op.get(key):
                d = copy.deepcopy(c)
                d["ops"][i].pop(key)
                yield d
        if op.get("n", 1) > 1:
            d = copy.deepcopy(c)
            d["ops"][i]["n"] = 1 if op["kind"].startswith("stoch") else 2
            if d["ops"][i]["n"] != op["n"]:
                yield d
    procs = c["model"].get("processes", [])
    if len(procs) > 1 and not c.get("param_spec"):
        for i in range(len(procs)):
            d = copy.deepcopy(c)
            del d["model"]["processes"][i]
            yield d

"""Engine "jump": stochastic paths of event models under the R seam (DESIGN section 7).

One case = one event model + parameters + integer initial state + a list of path operations.
Every path is produced by the real PyGOM code (solve_stochast -> _jump -> firstReaction/tauLeap);
the R seam records or scripts every exponential clock and Poisson count PyGOM asks for; the
reference (RefModel + the replay of the draw log below) never imports PyGOM.

Oracle ids produced here (each property's check keeps the ones with its own prefix):
  C04.walk.*  C04.termination.*  C04.crash.*     legal walk, termination
  C05.refine.*                                    per-step refinement of the first-reaction method
  C10.stoch.*                                     exact conservation on transition-only models
  C11.limit.*                                     limits on raw and gridded states, rejected steps
  C15.grid.*                                      gridded output vs underlying path
"""
import math

import numpy as np

from .. import core, gen, seams
from ..build import build_model, np_time, insertion_order
from ..refmodel import RefModel

fail = core.fail


# ---------------------------------------------------------------------------------------------------
# generation
# ---------------------------------------------------------------------------------------------------
def gen_limits(rng, names, x0, never_decreases):
    """never_decreases[i]: no event lowers the state(s) of declaration entry i, so an absent lower
    limit cannot let it go negative (negative populations are outside every property's domain)."""
    lims = []
    for i, _ in enumerate(names):
        r = rng.random()
        if x0[i] == 0 and rng.random() < 0.25:
            # a compartment that must stay empty: upper limit exactly 0 (a falsy number)
            lims.append([None if never_decreases[i] and rng.random() < 0.5 else 0, 0])
        elif r < 0.08 and never_decreases[i]:
            lims.append([None, None])                           # explicitly unlimited (no event lowers it)
        elif r < 0.45:
            lims.append(None)                                   # default (0, None)
        elif r < 0.60:
            lims.append([0, None])
        elif r < 0.80:
            lo = None if never_decreases[i] else 0
            lims.append([lo, int(x0[i] + rng.randint(0, 12))])     # upper only where that is safe
        else:
            lo = max(0, int(x0[i] - rng.randint(0, 10)))
            lims.append([lo, int(x0[i] + rng.randint(0, 15))])
    return lims


def estimate_events(ref, theta, x0, t0, T):
    """Crude deterministic estimate of the number of events on [t0, T] (Euler on the mean field)."""
    x = np.array(x0, float)
    t = float(t0)
    steps = 200
    h = (T - t0) / steps
    tot = 0.0
    for _ in range(steps):
        a = np.maximum(ref.rates(np.maximum(x, 0), t, theta), 0.0)
        tot += a.sum() * h
        V = ref.Vnum(x, t, theta)
        x = np.maximum(x + h * V.dot(a), 0.0)
        t += h
        if not np.all(np.isfinite(x)) or tot > 1e7:
            return 1e7
    return tot


def gen_case(S, tier, prop, force=None):
    """force: dict overriding generator choices (algorithm, grid, ...)."""
    force = force or {}
    rng = S("gen")
    small = rng.random() < 0.5
    popN = rng.choice([5, 8, 12, 20]) if small else rng.choice([30, 60, 120, 300])
    if rng.random() < 0.08:
        popN = rng.choice([100000, 1000000])      # large populations: limits and counts of a different magnitude
    only_T = force.get("transition_only", False)
    n = force.get("n")
    m = force.get("m")
    if n is None and rng.random() < 0.12:
        n = 1
    if m is None and rng.random() < 0.15:
        m = 1
    tries = 0
    while True:
        tries += 1
        model, names, params = gen.gen_model(rng, stochastic=True, n=n, m=m, with_odes=False,
                                             with_derived=rng.random() < 0.2, popN=popN,
                                             symbolic_mag=False, allow_time=rng.random() < 0.3,
                                             allow_range=True)
        if only_T:
            ok = all(tr["type"] == "T" for pr in model["processes"] for tr in pr["trans"])
            if not ok and tries < 200:
                continue
            if not ok:
                for pr in model["processes"]:
                    pr["trans"] = [tr for tr in pr["trans"] if tr["type"] == "T"] or \
                        [{"type": "T", "o": names[0], "d": names[-1], "mag": "1"}]
                    if names[0] == names[-1]:
                        raise core.HarnessError("transition-only model needs two states")
        break
    mixed = bool(force.get("mixed"))
    drained = set()
    if mixed:
        # events plus explicit ODE terms: under tau-leap the deterministic drift tau*g(x,t) is added to every leap,
        # so the limits must hold against drift as well (only the limit oracles apply to such a model)
        odes = []
        for s_ in rng.sample(list(names), min(len(names), rng.randint(1, 2))):
            other = rng.choice(list(names))
            eq = rng.choice(["-0.7", "-1.5", "-4.0", "-0.3*%s" % s_, "0.8", "2.5", "-0.4*%s" % other, "0.2*%s" % other])
            odes.append({"state": s_, "eq": eq})
            if eq.startswith("-"):
                drained.add(s_)
        model["odes"] = odes
    nn = len(names)
    x0 = [int(rng.randint(0, popN)) for _ in names]
    if sum(x0) == 0:
        x0[0] = popN
    theta = [round(rng.uniform(0.1, 1.5), 3) for _ in params]
    with_limits = force.get("limits", rng.random() < 0.6)
    if with_limits:
        lowered = set()
        for pr in model["processes"]:
            for tr in pr["trans"]:
                if tr["type"] in ("T", "D"):
                    lowered.add(tr["o"])
        lowered |= drained
        from ..refmodel import expand_names
        nd = [not any(nm in lowered for nm in expand_names([s["name"]])) for s in model["states"]]
        lims = gen_limits(rng, names_for_decl(model), decl_x0(model, x0), nd)
        # a range-style entry shares one pair of limits: widen it to cover every member's x0
        k = 0
        for j, s_ in enumerate(model["states"]):
            w = len(expand_names([s_["name"]]))
            if lims[j] is not None and w > 1:
                lo_, hi_ = lims[j]
                if lo_ is not None:
                    lo_ = min(lo_, min(x0[k:k + w]))
                if hi_ is not None:
                    hi_ = max(hi_, max(x0[k:k + w]))
                lims[j] = [lo_, hi_]
            k += w
        for s, lim in zip(model["states"], lims):
            if lim is not None:
                s["lim"] = lim
        model["state_decl"] = "list"
    t0 = rng.choice([0.0, 0.0, 1.0, 2.5])
    T = t0 + rng.choice([0.5, 1.0, 2.0, 4.0, 8.0])
    ref = RefModel(model)
    est = estimate_events(ref, theta, x0, t0, T)
    target = 1500 if tier == "thorough" else 600
    for _ in range(3):
        if est > target:
            T = t0 + (T - t0) * target / est
            est = estimate_events(ref, theta, x0, t0, T)
    T = float(round(T, 6)) if T - t0 > 1e-3 else t0 + 1e-3
    exact = force.get("exact", rng.random() < 0.55) and not mixed
    est_steps = est
    if not exact:
        # adaptive tau can be far smaller than the mean time between events: estimate the number of
        # leaps from Cao's formula at the initial state and shorten the horizon accordingly
        tau0 = adaptive_tau(ref, theta, x0, t0, 0.03)
        if tau0 is not None and tau0 > 0:
            est_steps = max(est, (T - t0) / tau0)
            if est_steps > 2 * target:
                T = float(round(t0 + (T - t0) * 2 * target / est_steps, 9))
                est_steps = 2 * target
                est = estimate_events(ref, theta, x0, t0, T)
    op = {"op": "paths", "T": T, "n": rng.choice([1, 2, 3, 5]), "exact": bool(exact),
          "single": force.get("single", rng.random() < 0.75), "seed": rng.randrange(2 ** 32)}
    if not exact:
        op["eps"] = rng.choice([0.01, 0.03, 0.03, 0.1, 0.3])
        if force.get("pre_tau", rng.random() < 0.35):
            op["pre_tau"] = rng.choice([0.01, 0.05, 0.1, 0.25, 0.5]) * (T - t0) / 2.0
    scripted = force.get("scripted", rng.random() < 0.5)
    env = {"K": rng.choice(["lambda", "numpy"])}
    if scripted:
        frng = S("faults")
        kinds = ["tiny_clock", "huge_clock", "tie", "zero_count", "tail_count"]
        on = [k for k in kinds if frng.random() < 0.5]
        faults = {k: round(frng.choice([0.02, 0.05, 0.1, 0.2]), 3) for k in on}
        env["R"] = {"mode": "scripted", "faults": faults, "script_seed": frng.randrange(2 ** 62)}
        batch = "fault_injecting" if faults else "fault_free"
    else:
        env["R"] = {"mode": "natural"}
        batch = "fault_free"
    ops = [op]
    if force.get("grid"):
        gop = dict(op)
        gop["op"] = "grid"
        gop.pop("single", None)
        gop["n"] = rng.choice([1, 2, 3])
        Tg = T
        if rng.random() < 0.3:
            Tg = t0 + (T - t0) * rng.choice([2.0, 5.0])      # grid extending past the estimate / extinction
            if est * (Tg - t0) / (T - t0) > 4 * target:
                Tg = T
        gop["grid"] = gen_grid(rng, t0, Tg, start_at_t0=rng.random() < 0.8)
        gop["gtype"] = rng.choice(["array", "array", "list", "tuple"])
        if exact and rng.random() < 0.5:
            gop["adv"] = [[round(rng.random(), 4), rng.choice([-1, 1]) * rng.choice([1e-5, 1e-6, 1e-7, 1e-8, 1e-9, 1e-10, 3e-12])]
                          for _ in range(rng.randint(1, 4))]
        gop.pop("T", None)
        ops = [gop] if force.get("grid") == "only" else [op, gop]
    if force.get("direct"):
        for _ in range(rng.randint(1, 3)):
            # states near the limits so that the guard is what decides
            xs = []
            for xi, lim in zip(x0, ref.limits):
                lo, hi = lim
                r_ = rng.random()
                if hi is not None and r_ < 0.4:
                    xs.append(max(int(lo or 0), 0, int(hi - rng.randint(0, 1))))
                elif r_ < 0.7:
                    xs.append(int((lo or 0) + rng.randint(0, 2)))
                else:
                    xs.append(int(xi))
            dop = {"op": "direct", "x": xs, "t": float(t0), "alg": rng.choice(["first", "tau", "tau"]),
                   "seed": rng.randrange(2 ** 32), "reps": 6, "eps": rng.choice([0.03, 0.1, 0.3])}
            if dop["alg"] == "tau" and rng.random() < 0.5:
                dop["pre_tau"] = rng.choice([0.05, 0.2, 1.0, 3.0])
            ops.append(dop)
    case = {"engine": "jump", "model": model, "theta": theta, "x0": x0, "t0": t0, "env": env,
            "ops": ops, "est_events": float(round(est, 3)), "est_steps": float(round(est_steps, 3)),
            "batch": batch, "checks": [prop]}
    if mixed:
        case["mixed"] = True
    if theta and not force.get("single_op") and rng.random() < 0.12:
        # history on one object: simulate, re-bind the parameters, simulate again
        th2 = [round(v * rng.uniform(0.6, 1.4), 3) for v in theta]
        est2 = estimate_events(ref, th2, x0, t0, T)
        if est2 <= 2.5 * max(est, 50.0):
            first = dict(ops[0])
            second = dict(ops[0])
            second["seed"] = rng.randrange(2 ** 32)
            case["ops"] = [first, {"op": "rebind", "theta": th2, "how": rng.choice(["list", "dict", "partial"])}, second] + ops[1:]
            case["est_events"] = float(round(max(est, est2), 3))
            case["est_steps"] = float(round(max(est_steps, est2), 3))
    return case


def adaptive_tau(ref, theta, x0, t0, eps):
    """Cao et al. step size at the initial state from the reference model (estimate only)."""
    if ref.m == 0:
        return None
    a = ref.rates(x0, t0, theta)
    mu = ref.num("mu", x0, t0, theta).ravel()
    s2 = ref.num("sig2", x0, t0, theta).ravel()
    bound = eps * a.sum()
    c = []
    c += [bound / abs(v) for v in mu if v != 0]
    c += [bound ** 2 / v for v in s2 if v != 0]
    return min(c) if c else None


def names_for_decl(model):
    return [s["name"] for s in model["states"]]


def decl_x0(model, x0):
    """Initial value of the first state of each declaration entry (range entries share limits)."""
    from ..refmodel import expand_names
    out = []
    k = 0
    for s in model["states"]:
        out.append(x0[k])
        k += len(expand_names([s["name"]]))
    return out


# ---------------------------------------------------------------------------------------------------
# execution
# ---------------------------------------------------------------------------------------------------
class Session(object):
    """One PyGOM object + its reference + the installed seams."""

    def __init__(self, case):
        self.case = case
        self.pg = core.boot()
        self.ref = RefModel(case["model"], insertion_order(case["model"]))
        env = case.get("env", {})
        kmode = env.get("K", "lambda")
        self.k = None
        if kmode == "lambda":
            self.ode = build_model(self.pg, case["model"], backend="lambda")
        else:
            self.k = seams.KSeam(self.pg.ou, lambda i: kmode).install()
            self.ode = build_model(self.pg, case["model"])
        self.theta = list(case["theta"])
        if self.ref.p:
            self.ode.parameters = list(zip(self.ref.param_names, self.theta)) if env.get("param_pairs") \
                else list(self.theta)
        self.x0 = np.array(case["x0"], float)
        self.t0 = float(case["t0"])
        self.ode.initial_values = (self.x0.copy(), np_time(self.t0))
        renv = env.get("R", {"mode": "natural"})
        import random
        srng = random.Random(renv.get("script_seed", 0))
        est = max(float(case.get("est_events", 1000.0)), float(case.get("est_steps", 0.0)))
        self.cap = int(60 * est * (self.ref.m + 1) + 50000)
        self.r = seams.RSeam(self.pg.ss, mode=renv.get("mode", "natural"), script_rng=srng,
                             faults=renv.get("faults", {}), cap=self.cap, sim_module=self.pg.sim).install()
        # adversarially tiny clocks let events happen without time passing; with births whose rate grows with the
        # population that feeds back (more individuals -> more events per unit time): no bound on the number of
        # events before the horizon follows from the rates, so the step cap is then not a verdict
        self.cap_is_verdict = not (renv.get("mode") == "scripted" and renv.get("faults", {}).get("tiny_clock") and
                                   any(tr["type"] == "B" for pr in case["model"].get("processes", []) for tr in pr["trans"]))

    def close(self):
        self.r.remove()
        if self.k is not None:
            self.k.remove()

    def fired(self):
        f = dict(self.r.fired)
        if getattr(self, "adv_fired", 0):
            f["G.near_event"] = self.adv_fired
        if self.k is not None:
            for k_, v in self.k.fired.items():
                f[k_] = f.get(k_, 0) + v
        return f


def legal(x, limits):
    for xi, (lo, hi) in zip(x, limits):
        if lo is None and hi is None:
            continue
        if lo is not None and xi < lo:
            return False
        if hi is not None and xi > hi:
            return False
    return True


def is_int_array(a):
    a = np.asarray(a, float)
    return bool(np.all(np.isfinite(a)) and np.all(a == np.round(a)))


def check_raw_path(sess, op, X, J, T, log, out, stats, single):
    """All per-path oracles on one raw path.  `log` is the draw log of exactly this path when
    `single` is true (one _jump call), else None."""
    ref, theta = sess.ref, sess.theta
    n, m = ref.n, ref.m
    horizon = float(op["T"])
    exact = bool(op["exact"])
    F = out.append
    X = np.asarray(X)
    T = np.asarray(T, float)
    J = np.asarray(J)
    K = len(T) - 1
    # ---- shapes ----------------------------------------------------------------------------------
    if X.ndim != 2 or X.shape != (K + 1, n):
        F(fail("C04.walk.shape", 0, "states shape %s for %d times, %d states" % (X.shape, K + 1, n)))
        return
    if K > 0 and (J.ndim != 2 or J.shape != (K, m)):
        F(fail("C04.walk.shape", 0, "counts shape %s for %d steps, %d events" % (J.shape, K, m)))
        return
    stats["events"] = stats.get("events", 0) + (float(np.sum(J)) if K > 0 else 0.0)
    stats["steps"] = stats.get("steps", 0) + K
    stats["sim_time"] = stats.get("sim_time", 0.0) + float(T[-1] - T[0])
    # ---- start ---------------------------------------------------------------------------------------
    if not np.array_equal(X[0].astype(float), sess.x0):
        F(fail("C04.walk.start", 0, "first state %s != x0 %s" % (X[0].tolist(), sess.x0.tolist())))
    if float(T[0]) != sess.t0:
        F(fail("C04.walk.start", 0, "first time %r != t0 %r" % (float(T[0]), sess.t0)))
    # ---- times strictly increasing -----------------------------------------------------------------
    if K > 0:
        d = np.diff(T)
        if not np.all(d > 0):
            k = int(np.argmax(~(d > 0)))
            F(fail("C04.walk.time", k, "times not strictly increasing at step %d: %r -> %r" % (k, T[k], T[k + 1])))
        if K > 1 and not np.all(T[1:-1] < horizon) and np.all(d > 0):
            k = 1 + int(np.argmax(~(T[1:-1] < horizon)))
            F(fail("C04.termination.overrun", k, "stepping continued after the horizon %r was passed (t=%r)" % (horizon, T[k])))
    # ---- counts and deltas -----------------------------------------------------------------------------
    Vc = ref.Vnum(sess.x0, sess.t0, theta)      # numeric magnitudes: constant in (x,t)
    mixed = bool(sess.case.get("mixed"))
    for k in range(K):
        if mixed:
            break               # drift: the state change is V*counts + tau*g, not a walk of the events alone
        c = J[k].astype(float)
        if not (is_int_array(c) and np.all(c >= 0)):
            F(fail("C04.walk.counts", k, "counts %s are not non-negative integers" % c.tolist()))
            break
        if exact and c.sum() != 1:
            F(fail("C04.walk.counts", k, "exact step reports %s events: %s" % (c.sum(), c.tolist())))
            break
        delta = X[k + 1].astype(float) - X[k].astype(float)
        want = Vc.dot(c)
        if not np.array_equal(delta, want):
            F(fail("C04.walk.delta", k, "state change %s != V*counts %s (counts %s)" % (
                delta.tolist(), want.tolist(), c.tolist())))
            break
    # ---- limits (C11) and conservation (C10) on every recorded state --------------------------------
    for k in range(K + 1):
        if not legal(X[k], ref.limits):
            F(fail("C11.limit.raw", k, "state %s outside limits %s at t=%r" % (X[k].tolist(), ref.limits, T[k])))
            break
    if ref.is_transition_only():
        tot = X.astype(float).sum(axis=1)
        if not np.all(tot == tot[0]):
            k = int(np.argmax(tot != tot[0]))
            F(fail("C10.stoch.sum", k, "total population %r -> %r at step %d" % (tot[0], tot[k], k)))
    # ---- refinement and termination from the draw log --------------------------------------------------
    if mixed:
        stats["mixed_paths"] = stats.get("mixed_paths", 0) + 1
    elif single and log is not None:
        replay_log(sess, op, X, J, T, log, out, stats)
    elif K >= 0 and T[-1] < horizon:
        stats["termination_unchecked"] = stats.get("termination_unchecked", 0) + 1


def _winners(vals):
    mn = min(vals)
    return mn, [i for i, v in enumerate(vals) if v == mn]


def replay_log(sess, op, X, J, T, log, out, stats):
    """RefJump: walk the recorded draws alongside the path and check that PyGOM's steps refine the
    reference stepper.  A draw pattern that does not look like first-reaction / Poisson tau-leap is
    NOT a verdict (another exact algorithm would be legal): refinement is then 'unavailable'."""
    ref, theta = sess.ref, sess.theta
    m = ref.m
    horizon = float(op["T"])
    exact = bool(op["exact"])
    pre_tau = op.get("pre_tau")
    F = out.append
    K = len(T) - 1
    pos = 0
    L = log

    def exp_group(k, x, t):
        """Parse one group of clocks at (x,t).  Returns (ok, event index of a winner set, min clock, newpos)."""
        nonlocal pos
        a = ref.rates(x, t, theta)
        idx = [i for i in range(m) if a[i] > 0]
        grp = L[pos:pos + len(idx)]
        if len(grp) != len(idx) or any(g[0] != "e" for g in grp):
            return None
        for g, i in zip(grp, idx):
            if abs(g[1] - a[i]) > 1e-9 * max(1.0, abs(a[i])):
                F(fail("C05.refine.rate", k, "clock for event %d drawn with rate %r, model rate is %r at x=%s t=%r" % (
                    i, g[1], float(a[i]), np.asarray(x).tolist(), t)))
                return None
        # rates PyGOM did NOT ask a clock for must be zero in the reference: covered by idx construction
        vals = [g[2] for g in grp]
        pos += len(idx)
        if not vals:
            return ("none", [], None)
        mn, win = _winners(vals)
        return ("ok", [idx[w] for w in win], mn)

    def pois_group(k, x, t):
        nonlocal pos
        grp = L[pos:pos + m]
        if len(grp) != m or any(g[0] != "p" for g in grp):
            return None
        pos += m
        return [g[2] for g in grp], [g[1] for g in grp]

    synced = True
    Vc = ref.Vnum(sess.x0, sess.t0, theta)
    for k in range(K):
        x, t = X[k].astype(float), float(T[k])
        dt = float(T[k + 1] - T[k])
        if not exact:
            pg_ = pois_group(k, x, t)
            if pg_ is None:
                synced = False
                break
            counts, mus = pg_
            x_try = x + Vc.dot(np.array(counts, float))
            if legal(x_try, ref.limits):
                if not np.array_equal(np.array(counts, float), J[k].astype(float)):
                    F(fail("C04.walk.counts", k, "reported counts %s differ from the Poisson draws %s" % (
                        J[k].tolist(), counts)))
                stats["tau_steps"] = stats.get("tau_steps", 0) + 1
                # informational probe, not a verdict: Poisson mean == tau * rate
                a = ref.rates(x, t, theta)
                tau = pre_tau if pre_tau is not None else dt
                if any(abs(mu - tau * ai) > 1e-6 * max(1.0, abs(mu)) for mu, ai in zip(mus, a)):
                    stats["probe_poisson_mean_mismatch"] = stats.get("probe_poisson_mean_mismatch", 0) + 1
                continue
            stats["tau_rejected"] = stats.get("tau_rejected", 0) + 1
            # rejected tau step: C11 says state and time are unchanged, so the fall-back clocks are
            # drawn at the same (x, t)
        eg = exp_group(k, x, t)
        if eg is None:
            synced = False
            break
        if eg[0] == "none":
            F(fail("C04.walk.counts", k, "a step was recorded at x=%s t=%r where every model rate is zero" % (x.tolist(), t)))
            synced = False
            break
        _, winners, mn = eg
        stats["exact_steps"] = stats.get("exact_steps", 0) + 1
        fired = [i for i in range(m) if J[k][i] != 0]
        if len(fired) == 1 and fired[0] not in winners:
            F(fail("C05.refine.argmin", k, "event %d fired but the earliest clock belongs to %s" % (fired[0], winners)))
        if abs(dt - mn) > 1e-9 * max(1.0, abs(t), abs(mn)) + 4 * np.spacing(abs(t) + abs(mn)):
            F(fail("C05.refine.dt", k, "time advanced by %r, earliest clock is %r" % (dt, mn)))
    if not synced:
        stats["refine_unavailable"] = stats.get("refine_unavailable", 0) + 1
        return
    stats["refine_paths"] = stats.get("refine_paths", 0) + 1
    # ---- termination -------------------------------------------------------------------------------------
    xl, tl = X[-1].astype(float), float(T[-1])
    if tl >= horizon:
        if pos != len(L):
            stats["trailing_draws"] = stats.get("trailing_draws", 0) + 1
        return
    a = ref.rates(xl, tl, theta)
    if np.all(a == 0):
        stats["stop_extinct"] = stats.get("stop_extinct", 0) + 1
        return
    # PyGOM stopped before the horizon although some event has positive rate: the step it drew
    # must have been illegal (and, for tau-leap, the fall-back too).
    if not exact:
        pg_ = pois_group(K, xl, tl)
        if pg_ is None:
            F(fail("C04.termination.early", K, "path stopped at t=%r < horizon %r with rates %s and no further step was attempted" % (tl, horizon, a.tolist())))
            return
        counts, _ = pg_
        if legal(xl + Vc.dot(np.array(counts, float)), ref.limits):
            F(fail("C04.termination.early", K, "a legal tau-leap step (counts %s from x=%s) was not taken; path stopped at t=%r < %r" % (counts, xl.tolist(), tl, horizon)))
            return
    eg = exp_group(K, xl, tl)
    if eg is None or eg[0] == "none":
        F(fail("C04.termination.early", K, "path stopped at t=%r < horizon %r with rates %s and no clock was drawn" % (tl, horizon, a.tolist())))
        return
    _, winners, mn = eg
    if all(legal(xl + Vc[:, w], ref.limits) for w in winners):
        F(fail("C04.termination.early", K, "the earliest clock (event %s) is a legal step from x=%s but the path stopped at t=%r < %r" % (winners, xl.tolist(), tl, horizon)))
        return
    stats["stop_illegal"] = stats.get("stop_illegal", 0) + 1


def run_paths(sess, op, out, stats, log):
    """Execute one 'paths' operation and check every path."""
    ode = sess.ode
    ode.pre_tau = op.get("pre_tau")
    if "eps" in op:
        ode._epsilon = op["eps"]
    n = int(op["n"])
    exact = bool(op["exact"])
    T = np_time(op["T"])
    sess.r.reseed(op["seed"])
    results = []
    try:
        if op.get("single", True):
            for i in range(n):
                sess.r.reset_log()
                Xs, Js, Ts = ode.solve_stochast(T, 1, exact=exact, full_output=True)
                plog = list(sess.r.log)
                results.append((Xs[0], Js[0], Ts[0], plog))
        else:
            sess.r.reset_log()
            Xs, Js, Ts = ode.solve_stochast(T, n, exact=exact, full_output=True)
            if not (len(Xs) == len(Js) == len(Ts) == n):
                out.append(fail("C04.walk.shape", 0, "asked %d paths, got %d/%d/%d" % (n, len(Xs), len(Js), len(Ts))))
            for X, J, Tt in zip(Xs, Js, Ts):
                results.append((X, J, Tt, None))
    except seams.Explosion:
        stats["explosion_inconclusive"] = stats.get("explosion_inconclusive", 0) + 1
        return results
    except seams.StepCap as e:
        if (exact or op.get("pre_tau") is not None) and sess.cap_is_verdict:
            out.append(fail("C04.termination.stepcap", -1, "simulation did not return: %s (estimate %s events, %s steps)" % (
                e, sess.case.get("est_events"), sess.case.get("est_steps"))))
        else:
            # adaptive tau may legally take arbitrarily many tiny leaps: not a verdict
            stats["stepcap_inconclusive"] = stats.get("stepcap_inconclusive", 0) + 1
        return results
    except core.RunTimeout:
        raise
    except Exception as e:
        out.append(core.crash_failure("C04", e, -1, "solve_stochast(T=%r, n=%d, exact=%s)" % (float(T), n, exact)))
        return results
    for (X, J, Tt, plog) in results:
        check_raw_path(sess, op, X, J, Tt, plog, out, stats, plog is not None)
        log.append(["path", core.digest([np.asarray(X).tolist(), np.asarray(J).tolist(), np.asarray(Tt).tolist()])])
    return results


def nontrivial_paths(stats):
    return stats.get("steps", 0) >= 3


def execute(case, keep_prefix=None):
    """Run a jump case; return the result dict.  keep_prefix: tuple of oracle prefixes to keep."""
    out, stats, log = [], {}, []
    sess = None
    try:
        try:
            sess = Session(case)
        except core.HarnessError:
            raise
        except Exception as e:
            out.append(core.crash_failure("C04", e, -1, "model construction"))
            return finish(case, out, stats, log, sess, keep_prefix)
        for op in case["ops"]:
            if op["op"] not in _OPS:
                raise core.HarnessError("unknown op %r" % (op,))
            _OPS[op["op"]](sess, op, out, stats, log)
    finally:
        if sess is not None:
            sess.close()
    return finish(case, out, stats, log, sess, keep_prefix)


def finish(case, out, stats, log, sess, keep_prefix):
    if keep_prefix:
        out = [f for f in out if f["oracle"].startswith(tuple(keep_prefix))]
    # one failure per oracle id is enough
    seen, uniq = set(), []
    for f in out:
        if f["oracle"] not in seen:
            seen.add(f["oracle"])
            uniq.append(f)
    log.append(["failures", sorted(seen)])
    return {"failures": uniq, "stats": stats, "log": log,
            "faults": sess.fired() if sess is not None else {},
            "nontrivial": nontrivial_paths(stats),
            "measure": []}


# ---------------------------------------------------------------------------------------------------
# reductions (delta debugging moves) shared by the jump properties
# ---------------------------------------------------------------------------------------------------
def reductions(case):
    """Delta-debugging moves; the event estimate that sizes the step cap travels with the case, so it is refreshed
    for every candidate (a candidate with other parameters must not 'fail' the step cap because of a stale number)."""
    for d in _reductions(case):
        try:
            ref = RefModel(d["model"], insertion_order(d["model"]))
            hs = [float(op["T"]) for op in d["ops"] if "T" in op] or [float(op["grid"][-1]) for op in d["ops"] if op.get("grid")]
            if hs:
                new = float(estimate_events(ref, d["theta"], list(d["x0"]), d["t0"], max(hs)))
                old_ = max(float(d.get("est_events", 0.0)), float(d.get("est_steps", 0.0)))
                d["est_events"] = float(min(max(old_, new), 20000.0))
        except Exception:
            pass
        yield d


def _reductions(case):
    import copy
    c = case

    def clone():
        return copy.deepcopy(c)
    # fewer paths, single-path mode
    for i, op in enumerate(c["ops"]):
        if op.get("n", 1) > 1:
            d = clone()
            d["ops"][i]["n"] = 1
            yield d
    if len(c["ops"]) > 1:
        for i in range(len(c["ops"])):
            d = clone()
            del d["ops"][i]
            yield d
    # faults off
    renv = c.get("env", {}).get("R", {})
    if renv.get("mode") == "scripted":
        d = clone()
        d["env"]["R"] = {"mode": "natural"}
        d["batch"] = "fault_free"
        yield d
        for k in list(renv.get("faults", {})):
            d = clone()
            del d["env"]["R"]["faults"][k]
            yield d
    if c.get("env", {}).get("K") != "lambda":
        d = clone()
        d["env"]["K"] = "lambda"
        yield d
    # drop processes
    procs = c["model"].get("processes", [])
    if len(procs) > 1:
        for i in range(len(procs)):
            d = clone()
            del d["model"]["processes"][i]
            yield d
    # drop transitions of multi-transition events, magnitudes -> 1, plain routes
    for i, pr in enumerate(procs):
        if len(pr["trans"]) > 1:
            for j in range(len(pr["trans"])):
                d = clone()
                del d["model"]["processes"][i]["trans"][j]
                if d["model"]["processes"][i].get("route", "event").endswith("trans_event"):
                    d["model"]["processes"][i]["route"] = "event"
                yield d
        for j, tr in enumerate(pr["trans"]):
            if tr.get("mag", "1") != "1":
                d = clone()
                d["model"]["processes"][i]["trans"][j]["mag"] = "1"
                yield d
        if pr.get("route", "event") != "event":
            d = clone()
            d["model"]["processes"][i]["route"] = "event"
            yield d
    # drop derived parameters that are unused, limits
    for i, s in enumerate(c["model"]["states"]):
        if s.get("lim") is not None:
            d = clone()
            del d["model"]["states"][i]["lim"]
            yield d
    # shorter horizon
    for i, op in enumerate(c["ops"]):
        if "T" in op and op["T"] - c["t0"] > 0.05:
            d = clone()
            d["ops"][i]["T"] = c["t0"] + (op["T"] - c["t0"]) / 2.0
            if "grid" in op:
                continue
            yield d
    # smaller populations
    if max(c["x0"]) > 3:
        d = clone()
        d["x0"] = [int(math.ceil(v / 2.0)) for v in c["x0"]]
        yield d
    if c.get("t0", 0.0) != 0.0:
        d = clone()
        shift = c["t0"]
        d["t0"] = 0.0
        for op in d["ops"]:
            if "T" in op:
                op["T"] = op["T"] - shift
            if op.get("grid"):
                op["grid"] = [g - shift for g in op["grid"]]
        yield d
    # simpler parameters
    if any(v != 1.0 for v in c["theta"]):
        d = clone()
        d["theta"] = [1.0 for _ in c["theta"]]
        yield d


# ---------------------------------------------------------------------------------------------------
# gridded output (C15, C11 on gridded states)
# ---------------------------------------------------------------------------------------------------
def make_grid_arg(op):
    g = [float(v) for v in op["grid"]]
    ty = op.get("gtype", "array")
    if ty == "list":
        return list(g)
    if ty == "tuple":
        return tuple(g)
    return np.array(g, float)


def run_grid(sess, op, out, stats, log):
    """Same stream twice: once raw with a scalar horizon (the underlying paths), once gridded."""
    ode = sess.ode
    ref, theta = sess.ref, sess.theta
    F = out.append
    ode.pre_tau = op.get("pre_tau")
    if "eps" in op:
        ode._epsilon = op["eps"]
    n = int(op["n"])
    exact = bool(op["exact"])
    grid = [float(v) for v in op["grid"]]
    G = len(grid)
    m = ref.m
    try:
        sess.r.reseed(op["seed"])
        sess.r.reset_log()
        rX, rJ, rT = ode.solve_stochast(np_time(grid[-1]), n, exact=exact, full_output=True)
        ndraw_raw = len(sess.r.log)
        if op.get("adv"):
            # fault G.near_event: requested times placed a hair before / after actual event times of the
            # underlying path (known from the raw run of the identical stream); first and last stay
            T0 = np.asarray(rT[0], float)
            pts = set(grid)
            for frac, off in op["adv"]:
                if len(T0) < 2:
                    break
                te = float(T0[1 + int(frac * (len(T0) - 2))]) if len(T0) > 2 else float(T0[1])
                g_ = te + off * max(1.0, abs(te))
                if grid[0] < g_ < grid[-1]:
                    pts.add(g_)
                    sess.adv_fired = getattr(sess, "adv_fired", 0) + 1
            grid = sorted(pts)
            G = len(grid)
            op = dict(op, grid=grid)
        sess.r.reseed(op["seed"])
        sess.r.reset_log()
        gX, gJ, gT = ode.solve_stochast(make_grid_arg(op), n, exact=exact, full_output=True)
        ndraw_grid = len(sess.r.log)
    except (seams.StepCap, seams.Explosion):
        stats["stepcap_inconclusive"] = stats.get("stepcap_inconclusive", 0) + 1
        return
    except core.RunTimeout:
        raise
    except Exception as e:
        F(core.crash_failure("C15", e, -1, "solve_stochast(grid of %d points, n=%d, exact=%s)" % (G, n, exact)))
        return
    if ndraw_raw != ndraw_grid:
        # the two runs did not consume the same stream: they are not the same paths; no verdict
        stats["grid_stream_mismatch"] = stats.get("grid_stream_mismatch", 0) + 1
        return
    if not (len(gX) == n and len(gJ) == n):
        F(fail("C15.grid.rows", 0, "asked %d runs, got %d state arrays and %d count arrays" % (n, len(gX), len(gJ))))
        return
    gT = np.asarray(gT, float)
    if gT.shape != (G,) or not np.array_equal(gT, np.array(grid)):
        F(fail("C15.grid.rows", 0, "returned times %s are not the requested grid" % (gT.tolist(),)))
    Vc = ref.Vnum(sess.x0, sess.t0, theta)
    for i in range(n):
        X = np.asarray(gX[i], float)
        J = np.asarray(gJ[i], float)
        RX = np.asarray(rX[i], float)
        RT = np.asarray(rT[i], float)
        RJ = np.asarray(rJ[i], float)
        stats["steps"] = stats.get("steps", 0) + len(RT) - 1
        stats["events"] = stats.get("events", 0) + (float(RJ.sum()) if RJ.size else 0.0)
        stats["sim_time"] = stats.get("sim_time", 0.0) + float(RT[-1] - RT[0])
        log.append(["grid", core.digest([X.tolist(), J.tolist()])])
        if X.shape != (G, ref.n):
            F(fail("C15.grid.rows", i, "gridded states have shape %s for %d requested times and %d states" % (X.shape, G, ref.n)))
            continue
        if grid[0] == sess.t0 and not np.array_equal(X[0], sess.x0):
            F(fail("C15.grid.first", i, "first row %s is not the initial state %s" % (X[0].tolist(), sess.x0.tolist())))
        for k in range(G):
            if not legal(X[k], ref.limits):
                F(fail("C11.limit.grid", k, "gridded state %s outside limits %s at t=%r" % (X[k].tolist(), ref.limits, grid[k])))
                break
        if not exact:
            continue
        # exact mode: row k is the path state at the last event time <= grid[k]
        near = [bool(np.any(np.abs(RT[1:] - g) <= 1e-12 * max(1.0, abs(g)))) for g in grid]
        for k in range(G):
            if near[k]:
                stats["grid_boundary_skips"] = stats.get("grid_boundary_skips", 0) + 1
                continue
            idx = int(np.searchsorted(RT, grid[k], side="right")) - 1
            idx = max(idx, 0)
            if not np.array_equal(X[k], RX[idx]):
                F(fail("C15.grid.state", k, "row %d (t=%r) is %s, the path is at %s (last event at t=%r)" % (
                    k, grid[k], X[k].tolist(), RX[idx].tolist(), float(RT[idx]))))
                break
        if J.shape != (G - 1, m):
            F(fail("C15.grid.counts", i, "per-interval counts have shape %s for %d intervals and %d events" % (J.shape, G - 1, m)))
            continue
        ev_t = RT[1:]
        for k in range(G - 1):
            if near[k] or near[k + 1]:
                continue
            sel = (ev_t > grid[k]) & (ev_t <= grid[k + 1])
            want = RJ[sel].sum(axis=0) if RJ.size else np.zeros(m)
            if not np.array_equal(J[k], want):
                F(fail("C15.grid.counts", k, "interval (%r, %r]: reported counts %s, the path fired %s" % (
                    grid[k], grid[k + 1], J[k].tolist(), np.asarray(want).tolist())))
                break
            if not np.array_equal(X[k + 1] - X[k], Vc.dot(J[k])):
                F(fail("C15.grid.delta", k, "rows %d->%d differ by %s, V*counts is %s" % (
                    k, k + 1, (X[k + 1] - X[k]).tolist(), Vc.dot(J[k]).tolist())))
                break
        stats["grid_runs_checked"] = stats.get("grid_runs_checked", 0) + 1


def gen_grid(rng, t0, T, start_at_t0=True):
    k = rng.choice([2, 3, 4, 6, 9])
    if rng.random() < 0.5:
        pts = [t0 + (T - t0) * j / (k - 1) for j in range(k)]
    else:
        inner = sorted(rng.uniform(t0, T) for _ in range(k - 2))
        pts = [t0] + inner + [T]
    if not start_at_t0:
        pts = pts[1:] if len(pts) > 2 else [t0 + (T - t0) * 0.3, T]
    # strictly increasing, exactly representable decimals keep the case readable
    out = []
    for p in pts:
        p = float(round(p, 6))
        if not out or p > out[-1]:
            out.append(p)
    if len(out) < 2:
        out = [float(t0), float(round(T, 6))]
    return out


# ---------------------------------------------------------------------------------------------------
# direct calls of the step functions (C11: a rejected step leaves state and time unchanged)
# ---------------------------------------------------------------------------------------------------
def run_direct(sess, op, out, stats, log):
    ss = sess.pg.ss
    ode = sess.ode
    ref, theta = sess.ref, sess.theta
    F = out.append
    x = np.array(op["x"], float)
    t = float(op["t"])
    a = ref.rates(x, t, theta)
    sess.r.reseed(op["seed"])
    for rep in range(int(op.get("reps", 8))):
        xin = x.copy()
        try:
            if op["alg"] == "first":
                res = ss.firstReaction(xin, ode._state_lims, t, ode.vMat, ode.eventRateVector)
            else:
                ode.get_ReactantMatrix()
                res = ss.tauLeap(xin, ode._state_lims, t, ode.vMat, ode._lambdaMat, ode.eventRateVector,
                                 ode.transitionMean, ode.transitionVar, ode.pureOdeVector,
                                 epsilon=op.get("eps", 0.03), pre_tau=op.get("pre_tau"))
        except (seams.StepCap, seams.Explosion):
            return
        except core.RunTimeout:
            raise
        except Exception as e:
            F(core.crash_failure("C11", e, rep, "%s step from x=%s" % (op["alg"], x.tolist())))
            return
        stats["direct_calls"] = stats.get("direct_calls", 0) + 1
        if np.all(a == 0):
            continue
        if not (isinstance(res, tuple) and len(res) == 5):
            stats["direct_odd_return"] = stats.get("direct_odd_return", 0) + 1
            continue
        t_new, dt, x_new, jumps, success = res
        log.append(["direct", bool(success), core.digest(np.asarray(x_new, float).tolist())])
        if not np.array_equal(xin, x):
            F(fail("C11.limit.rejected", rep, "the step function modified its input state in place: %s -> %s" % (x.tolist(), xin.tolist())))
            return
        if success:
            stats["direct_accepted"] = stats.get("direct_accepted", 0) + 1
            if not legal(np.asarray(x_new, float), ref.limits):
                F(fail("C11.limit.accepted", rep, "accepted step to %s violates limits %s" % (np.asarray(x_new).tolist(), ref.limits)))
                return
            if not (t_new > t):
                F(fail("C11.limit.accepted", rep, "accepted step did not advance time: %r -> %r" % (t, t_new)))
                return
        else:
            stats["direct_rejected"] = stats.get("direct_rejected", 0) + 1
            if not np.array_equal(np.asarray(x_new, float), x) or t_new != t:
                F(fail("C11.limit.rejected", rep, "rejected step returned state %s time %r, expected the unchanged %s, %r" % (
                    np.asarray(x_new).tolist(), t_new, x.tolist(), t)))
                return


def run_rebind(sess, op, out, stats, log):
    """The owner re-binds the parameter values of the model that is being simulated (a history on one object): the
    next paths must be walks of the model with the NEW values."""
    names = sess.ref.param_names
    th = [float(v) for v in op["theta"]]
    how = op.get("how", "list")
    try:
        if how == "dict":
            sess.ode.parameters = dict(zip(names, th))
        elif how == "partial":
            keep = names[::2]
            sess.ode.parameters = {nm: v for nm, v in zip(names, th) if nm in keep}
            th = [v if nm in keep else old for nm, v, old in zip(names, th, sess.theta)]
        else:
            sess.ode.parameters = list(th)
    except core.RunTimeout:
        raise
    except Exception as e:
        out.append(core.crash_failure("C04", e, -1, "re-binding parameters between two simulations"))
        return
    sess.theta = th
    stats["rebinds"] = stats.get("rebinds", 0) + 1
    log.append(["rebind", how])


_OPS = {"paths": run_paths, "grid": run_grid, "direct": run_direct, "rebind": run_rebind}

"""Engine "abc": get / continue histories of the ABC sampler with independent recomputation of every
particle after every call (C17).  Natural stream only (numpy global generator seeded from the case)."""
import copy

import numpy as np
import scipy.stats

from .. import core, seams, refsolve
from ..build import build_model, np_time, insertion_order
from ..refmodel import RefModel
from . import solver

fail = core.fail


def prior_density(spec, v):
    """RefABC: prior density from scipy.stats in R's parameterisation (rate, not scale)."""
    d, a, b = spec["dist"], spec["pars"][0], spec["pars"][1]
    if d == "unif":
        return float(scipy.stats.uniform.pdf(v, loc=a, scale=b - a))
    if d == "gamma":
        return float(scipy.stats.gamma.pdf(v, a=a, scale=1.0 / b))
    if d == "norm":
        return float(scipy.stats.norm.pdf(v, loc=a, scale=b))
    raise core.HarnessError(d)


def particle_cost(case, ref, particle):
    """Cost recomputed at a particle: documented transforms, column i <-> parameters[i]."""
    theta = list(case["theta"])
    x0 = list(case["x0"])
    for spec, v in zip(case["parameters"], particle):
        val = 10.0 ** float(v) if spec.get("logscale") else float(v)
        if spec["name"] in ref.param_names:
            theta[ref.param_names.index(spec["name"])] = val
        else:
            x0[ref.state_names.index(spec["name"])] = val
    con = case.get("constraint")
    if con:
        ci = ref.state_names.index(con[1])
        x0[ci] = con[0] - sum(v for i, v in enumerate(x0) if i != ci)
    ld = case["loss"]
    X = refsolve.solve(ref, theta, x0, case["t0"], ld["obs_t"])
    idx = [ref.state_names.index(s) for s in ld["states"]]
    yhat = X[:, idx]
    y = np.array(ld["y"], float).reshape(yhat.shape)
    spread = ld.get("sigma")
    return refsolve.ref_loss(ld["cls"], y, yhat, None, spread), yhat


def execute(case):
    pg = core.boot()
    import pygom.approximate_bayesian_computation as pabc
    out, stats, log = [], {}, []
    model = case["model"]
    ref = RefModel(model, insertion_order(model))
    isea = seams.ISeam(pg.ou, case.get("env", {}).get("I", "native")).install()
    nontrivial = False
    try:
        try:
            ode = build_model(pg, model, backend="lambda")
            ode.parameters = list(case["theta"])
            x0 = np.array(case["x0"], float)
            ode.initial_values = (x0.copy(), np_time(case["t0"]))
            np.random.seed(int(case["seed"]) % (2 ** 32))
            pars = [pabc.Parameter(s["name"], s["dist"], *s["pars"], logscale=bool(s.get("logscale"))) for s in case["parameters"]]
            ld = case["loss"]
            y = np.array(ld["y"], float)
            if y.shape[1] == 1:
                y = y.ravel()
            sname = ld["states"] if len(ld["states"]) > 1 else ld["states"][0]
            obj = pabc.create_loss(ld["cls"], pars, ode, x0.copy(), case["t0"], np.array(ld["obs_t"], float), y, sname,
                                   sigma=ld.get("sigma"))
            con = case.get("constraint")
            sampler = pabc.ABC(obj, pars, constraint=tuple(con) if con else None)
        except core.HarnessError:
            raise
        except core.RunTimeout:
            raise
        except Exception as e:
            out.append(core.crash_failure("C17", e, -1, "constructing the ABC problem"))
            return done(out, stats, log, isea, nontrivial)
        # bound the number of cost evaluations of one call (a tolerance nobody can meet would spin forever)
        calls = [0]
        real_cost = obj.cost
        cap = int(case.get("cost_cap", 6000))

        def counted_cost(*a, **k):
            calls[0] += 1
            if calls[0] > cap:
                raise seams.StepCap("more than %d cost evaluations in one call" % cap)
            c_ = real_cost(*a, **k)
            if c_ != c_:
                stats["nan_costs"] = stats.get("nan_costs", 0) + 1     # probe: the rare condition was hit
            return c_
        obj.cost = counted_cost
        all_tols = []
        for step, op in enumerate(case["ops"]):
            calls[0] = 0
            kw = dict(N=int(op["N"]), tol=op["tol"], G=int(op["G"]), q=op.get("q"), M=op.get("M"))
            try:
                if op["op"] == "get":
                    sampler.get_posterior_sample(**kw)
                else:
                    # tolerances of a continued run are placed between the best distance already achieved
                    # and the final tolerance of the previous run, so that they can be met
                    lo = float(np.min(sampler.dist))
                    hi = float(sampler.final_tol)
                    fr = op["tol"] if isinstance(op["tol"], list) else [op["tol"]]
                    tl = [lo + float(f) * (hi - lo) for f in fr]
                    if op.get("q") is not None and getattr(sampler, "next_tol", None) is not None and op.get("use_next_tol"):
                        tl = [min(float(sampler.next_tol), hi)]
                    kw["tol"] = tl if (isinstance(op["tol"], list) and len(tl) > 1) else tl[0]
                    sampler.continue_posterior_sample(**kw)
            except seams.StepCap:
                stats["cap_inconclusive"] = stats.get("cap_inconclusive", 0) + 1
                break
            except np.linalg.LinAlgError:
                stats["discarded_linalg"] = stats.get("discarded_linalg", 0) + 1
                break
            except core.RunTimeout:
                raise
            except Exception as e:
                if type(e).__name__ == "IntegrationError":
                    # a proposal drove the ODE out of the bounded-rate domain; what PyGOM must do when an
                    # integrator fails is not stated by any property: discard, never a verdict
                    stats["discarded_integration_failure"] = stats.get("discarded_integration_failure", 0) + 1
                    break
                if isinstance(e, ValueError) and ("positive" in str(e).lower() or "singular" in str(e).lower() or "semidefinite" in str(e).lower()):
                    stats["discarded_linalg"] = stats.get("discarded_linalg", 0) + 1
                    break
                if isinstance(e, AssertionError) and "tolerance" in str(e):
                    stats["discarded_precondition"] = stats.get("discarded_precondition", 0) + 1
                    break
                out.append(core.crash_failure("C17", e, step, "%s_posterior_sample(%s)" % (op["op"], {k: v for k, v in kw.items()})))
                break
            stats["abc_calls"] = stats.get("abc_calls", 0) + 1
            stats["cost_evaluations"] = stats.get("cost_evaluations", 0) + calls[0]
            res = np.array(sampler.res, float)
            dist = np.array(sampler.dist, float)
            w = np.array(sampler.w, float)
            tols = [float(t_) for t_ in sampler.tolerances]
            final_tol = float(sampler.final_tol)
            log.append(["abc", step, core.digest([res.tolist(), dist.tolist(), w.tolist(), tols], 10)])
            N = int(op["N"])
            if res.shape != (N, len(case["parameters"])) or dist.shape != (N,) or w.shape != (N,):
                out.append(fail("C17.shape", step, "res %s dist %s w %s for N=%d and %d parameters" % (res.shape, dist.shape, w.shape, N, len(case["parameters"]))))
                break
            nontrivial = True
            for i in range(N):
                dens = [prior_density(s, res[i, j]) for j, s in enumerate(case["parameters"])]
                if not all(d_ > 0 for d_ in dens):
                    out.append(fail("C17.prior", step, "particle %d = %s has zero prior density %s" % (i, res[i].tolist(), dens)))
                    break
                if not (np.isfinite(w[i]) and w[i] > 0):
                    out.append(fail("C17.weight", step, "particle %d has weight %r" % (i, float(w[i]))))
                    break
                if not (dist[i] < final_tol):
                    out.append(fail("C17.tolerance", step, "particle %d has distance %r, not below the tolerance %r of its generation" % (i, float(dist[i]), final_tol)))
                    break
            # recompute the distances of a sample of particles (all of them when N is small)
            idxs = list(range(N)) if N <= 24 else list(range(0, N, max(1, N // 24)))
            for i in idxs:
                try:
                    want, yhat = particle_cost(case, ref, res[i])
                except refsolve.RefSolveError:
                    stats["reference_failed"] = stats.get("reference_failed", 0) + 1
                    continue
                if not np.isfinite(want):
                    stats["reference_failed"] = stats.get("reference_failed", 0) + 1
                    continue
                stats["particles_recomputed"] = stats.get("particles_recomputed", 0) + 1
                tol_ = 1e-5 * (1 + abs(want)) + solver.loss_slack(dict(case["loss"], spread=case["loss"].get("sigma"), weights=None), yhat)
                if not abs(dist[i] - want) <= tol_:
                    out.append(fail("C17.distance", step, "particle %d = %s: stored distance %r, cost recomputed at the particle %r" % (
                        i, res[i].tolist(), float(dist[i]), want)))
                    break
            if op.get("q") is not None:
                seq = all_tols[-1:] + tols if all_tols else tols
                if any(b > a * (1 + 1e-12) for a, b in zip(seq, seq[1:])):
                    out.append(fail("C17.schedule", step, "tolerances increased under quantile scheduling: %s" % (seq,)))
            if len(tols) != int(op["G"]):
                out.append(fail("C17.shape", step, "%d tolerances recorded for G=%d" % (len(tols), int(op["G"]))))
            all_tols.extend(tols)
    finally:
        isea.remove()
    return done(out, stats, log, isea, nontrivial)


def done(out, stats, log, isea, nontrivial):
    seen, uniq = set(), []
    for f in out:
        if f["oracle"] not in seen:
            seen.add(f["oracle"])
            uniq.append(f)
    log.append(["failures", sorted(seen)])
    return {"failures": uniq, "stats": stats, "log": log, "faults": dict(isea.fired), "measure": [], "nontrivial": nontrivial}


# ---------------------------------------------------------------------------------------------------
def gen_case(S, tier):
    rng = S("gen")
    for _ in range(200):
        name = rng.choice(["SIR", "SIR_N", "SIR_C", "SIR_C", "SEIR", "SIS", "LIN3", "LOGI"])
        c = solver.CATALOGUE[name]
        model = copy.deepcopy(c["model"])
        for pr in model["processes"]:
            pr["route"] = "event"
        ref = RefModel(model)
        box = c["box"]
        theta = [round(rng.uniform(lo + 0.25 * (hi - lo), hi - 0.25 * (hi - lo)), 4) for lo, hi in box]
        x0 = list(c["x0"])
        t0 = 0.0
        tmax = min(c["tmax"], 20.0)
        cls = rng.choice(["SquareLoss", "SquareLoss", "NormalLoss", "PoissonLoss", "PoissonLoss"])
        if name == "SIR_C":
            cls = "PoissonLoss"        # counts; an epidemic that burns out leaves I ~ 1e-12 (of either sign)
        if cls == "PoissonLoss" and name not in ("SIR_N", "SIR_C", "LIN3", "LOGI"):
            cls = "SquareLoss"
        obs_t = solver.gen_times(rng, t0, tmax, k=rng.randint(4, 8))
        if name == "SIR_C":
            obs_t = solver.gen_times(rng, t0, 40.0, k=rng.randint(4, 8), uniform=True)
            obs_t = [t_ for t_ in obs_t] if obs_t[-1] > 25 else obs_t + [40.0]
        ns = rng.choice([1, 2]) if ref.n >= 2 else 1
        states = rng.sample(ref.state_names, ns)
        zero_states = [nm for nm, v in zip(ref.state_names, x0) if v == 0]
        if cls == "PoissonLoss" and zero_states and rng.random() < 0.7:
            z = rng.choice(zero_states)
            states = [z] + [s_ for s_ in states if s_ != z][:ns - 1]
        X = solver.safe_reference(ref, theta, x0, t0, obs_t)
        if X is None:
            continue
        idx = [ref.state_names.index(s) for s in states]
        y = X[:, idx] * (1.0 + np.array([[rng.uniform(-0.05, 0.05) for _ in idx] for _ in obs_t]))
        if cls == "PoissonLoss":
            # states that start at (or decay to) zero are allowed: the cost is then NaN for some prior draws
            # (a tiny negative prediction from the integrator) and such draws must be rejected
            if X[:, idx].min() < 0.0 or X[:, idx].max() < 2.0:
                continue
            y = np.rint(np.maximum(y, 0.0))
        loss = {"cls": cls, "states": states, "obs_t": obs_t, "y": y.tolist()}
        if cls == "NormalLoss":
            loss["sigma"] = round(rng.uniform(0.5, 2.0), 3)
        # inferred quantities: 1-2 parameters (+ optionally an initial state)
        k = rng.choice([1, 1, 2]) if ref.p >= 2 else 1
        inferred = rng.sample(ref.param_names, k)
        parameters = []
        for nm in inferred:
            i = ref.param_names.index(nm)
            lo, hi = box[i]
            th = theta[i]
            logscale = rng.random() < 0.35
            d = rng.choice(["unif", "unif", "gamma", "norm"])
            if logscale:
                # prior on log10 of the value; narrow so that kernels propose outside the support
                c_ = np.log10(th)
                parameters.append({"name": nm, "dist": "unif", "pars": [round(c_ - rng.uniform(0.1, 0.4), 4), round(c_ + rng.uniform(0.1, 0.4), 4)], "logscale": True})
            elif d == "unif" and rng.random() < (0.7 if cls == "PoissonLoss" else 0.3):
                # wide prior from zero: includes values where a state never leaves zero
                parameters.append({"name": nm, "dist": "unif", "pars": [0.0, round(hi * rng.choice([1.0, 1.5]), 4)]})
            elif d == "unif":
                w_ = (hi - lo) * rng.choice([0.15, 0.3, 0.6])
                parameters.append({"name": nm, "dist": "unif", "pars": [round(max(lo * 0.5, th - w_ * rng.uniform(0.2, 0.8)), 4), round(th + w_ * rng.uniform(0.2, 0.8), 4)]})
            elif d == "gamma":
                # tight priors away from zero, and broad ones whose mass reaches down to the edge of the support
                # (perturbation kernels then propose negative values, which must be rejected)
                shape = rng.choice([20.0, 50.0, 100.0, 1.5, 2.0, 3.0])
                parameters.append({"name": nm, "dist": "gamma", "pars": [shape, round(shape / th, 5)]})
            else:
                parameters.append({"name": nm, "dist": "norm", "pars": [th, round(th * rng.choice([0.05, 0.1, 0.2]), 5)]})
        constraint = None
        if rng.random() < 0.45 and ref.n >= 2:
            snm = rng.choice(ref.state_names)
            base = x0[ref.state_names.index(snm)]
            if base > 0:
                if rng.random() < 0.3:
                    # the initial state itself on the log10 scale
                    parameters.append({"name": snm, "dist": "unif", "logscale": True,
                                       "pars": [round(np.log10(base * 0.7), 6), round(np.log10(base * 1.3), 6)]})
                else:
                    parameters.append({"name": snm, "dist": "unif", "pars": [round(base * 0.7, 6), round(base * 1.3, 6)]})
                more = [s for s in ref.state_names if s != snm and x0[ref.state_names.index(s)] > 0]
                if more and rng.random() < 0.35:
                    # a second inferred initial state (listed in whatever order the shuffle below gives)
                    s2 = rng.choice(more)
                    b2 = x0[ref.state_names.index(s2)]
                    parameters.append({"name": s2, "dist": "unif", "pars": [round(b2 * 0.8, 6), round(b2 * 1.2, 6)]})
                elif rng.random() < 0.4:
                    others = [s for s in ref.state_names if s != snm]
                    constraint = [float(sum(x0)), rng.choice(others)]
        if rng.random() < (0.75 if len(parameters) > len(inferred) else 0.5):
            rng.shuffle(parameters)             # e.g. an initial state listed before or between the rate parameters
        flags = [bool(s_.get("logscale")) for s_ in parameters]
        if len(parameters) >= 2 and len(set(flags)) == 1 and rng.random() < 0.6:
            # asymmetric by construction (so that an index slip between the user's order and the loss object's
            # order cannot cancel): put one uniform-prior quantity on the other scale
            cand = [s_ for s_ in parameters if s_["dist"] == "unif" and (s_.get("logscale") or s_["pars"][0] > 0)]
            if cand:
                s_ = rng.choice(cand)
                a_, b_ = s_["pars"]
                if s_.get("logscale"):
                    s_["pars"] = [round(10.0 ** a_, 6), round(10.0 ** b_, 6)]
                    s_.pop("logscale")
                else:
                    s_["pars"] = [round(float(np.log10(a_)), 6), round(float(np.log10(b_)), 6)]
                    s_["logscale"] = True
        case = {"engine": "abc", "problem": name, "model": model, "theta": theta, "x0": x0, "t0": t0, "loss": loss,
                "parameters": parameters, "constraint": constraint, "seed": rng.randrange(2 ** 32),
                "env": {"I": S("faults").choice(["native", "native", "fresh", "reuse"])}}
        # a tolerance that a fair share of prior draws meets: sample the prior through the reference
        costs = []
        prng = S("prior")
        for _k in range(24):
            part = []
            for s in parameters:
                a, b = s["pars"]
                if s["dist"] == "unif":
                    part.append(prng.uniform(a, b))
                elif s["dist"] == "gamma":
                    part.append(prng.gammavariate(a, 1.0 / b))
                else:
                    part.append(prng.gauss(a, b))
            try:
                cst, _ = particle_cost(case, ref, part)
                if np.isfinite(cst):
                    costs.append(cst)
            except (refsolve.RefSolveError, ValueError, OverflowError):
                pass
        if len(costs) < 12:
            continue
        costs.sort()
        q0 = rng.choice([0.5, 0.7, 0.85])
        tol0 = float(costs[int(len(costs) * q0)]) * 1.0001 + 1e-12
        if rng.random() < 0.3:
            # a wide-open first generation: (nearly) every prior draw is accepted, so every stored distance of
            # generation 0 is the cost of an unfiltered draw
            tol0 = float(costs[-1]) * 3.0 + 1e-12
        N = rng.choice([20, 25, 30, 40, 60])
        ops = []
        nops = rng.choice([1, 2, 2, 3])
        for j in range(nops):
            G = rng.choice([1, 2, 2, 3, 4]) if tier == "thorough" else rng.choice([1, 2, 2, 3])
            quant = rng.random() < 0.5
            M = rng.choice([None, None, N - 1, max(3, N // 3)])
            op = {"op": "get" if j == 0 else "continue", "N": N, "G": G, "M": M}
            if quant:
                op["q"] = rng.choice([0.25, 0.5, 0.75])
                op["tol"] = tol0 if j == 0 else 1.0
                if j > 0:
                    op["use_next_tol"] = rng.random() < 0.5
            elif G == 1:
                op["tol"] = tol0 if j == 0 else rng.choice([1.0, 0.8, 0.6])
            elif j == 0:
                # decreasing quantiles of costs that prior draws actually achieve
                qs = [q0]
                for _g in range(G - 1):
                    qs.append(qs[-1] * rng.choice([0.85, 0.7]))
                op["tol"] = [float(costs[max(1, int(len(costs) * qq))]) * 1.0001 + 1e-12 for qq in qs]
            else:
                f = [rng.choice([1.0, 0.9])]
                for _g in range(G - 1):
                    f.append(f[-1] * rng.choice([0.85, 0.7]))
                op["tol"] = f
            ops.append(op)
        case["ops"] = ops
        case["batch"] = "fault_injecting" if case["env"]["I"] == "reuse" else "fault_free"
        return case
    raise core.HarnessError("no ABC case")


def reductions(case):
    c = case
    if len(c["ops"]) > 1:
        d = copy.deepcopy(c)
        d["ops"] = d["ops"][:-1]
        yield d
    for i, op in enumerate(c["ops"]):
        if op["G"] > 1:
            d = copy.deepcopy(c)
            d["ops"][i]["G"] = op["G"] - 1
            if isinstance(op["tol"], list):
                d["ops"][i]["tol"] = op["tol"][:op["G"] - 1] if op["G"] - 1 > 1 else op["tol"][0]
            yield d
        if op.get("M") is not None:
            d = copy.deepcopy(c)
            d["ops"][i]["M"] = None
            yield d
    if c.get("constraint"):
        d = copy.deepcopy(c)
        d["constraint"] = None
        yield d
    if c.get("env", {}).get("I") != "native":
        d = copy.deepcopy(c)
        d["env"]["I"] = "native"
        yield d
    if c["ops"][0]["N"] > 20:
        d = copy.deepcopy(c)
        for op in d["ops"]:
            if op.get("M") == op["N"] - 1:
                op["M"] = 19
            op["N"] = 20
            if op.get("M") is not None:
                op["M"] = min(op["M"], 19)
        yield d

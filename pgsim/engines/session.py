"""Engine "session": one model object driven through a history of public API calls under the K seam
(compiler cascade faults), checked after every step against the reference model and/or a freshly
rebuilt PyGOM model.  Serves C01, C03, C08, C09, C12, C13 (algebraic part).

Case layout
  model   : JSON definition at construction time (processes carry their 'route')
  order   : order in which the constructor receives the processes (default as listed)
  env.K   : {"plan": [level, ...]}   level per compile call (cycled); see seams.KSeam
            {"backend": "lambda"}    PyGOM's own configuration seam instead of the cascade
  theta   : initial parameter values (list, in declaration order)
  ops     : the history
"""
import copy
import itertools

import numpy as np
import sympy as sp

from .. import core, seams
from ..build import build_model, insertion_order, make_process
from ..refmodel import RefModel, sym_equal, maxdiff, expand_names

fail = core.fail

EVALUATORS = ["ode", "jacobian", "grad", "diff_jacobian", "grad_jacobian", "vMat", "eventRateVector",
              "pureOdeVector", "transitionJacobian", "transitionMean", "transitionVar"]
EVENT_EVALS = {"vMat", "eventRateVector", "transitionJacobian", "transitionMean", "transitionVar"}
REF_NAME = {"ode": "f", "jacobian": "J", "grad": "G", "diff_jacobian": "dJ", "grad_jacobian": "GJ", "vMat": "V",
            "eventRateVector": "a", "pureOdeVector": "g", "transitionJacobian": "F", "transitionMean": "mu",
            "transitionVar": "sig2"}
VECTOR = {"ode", "eventRateVector", "pureOdeVector", "transitionMean", "transitionVar"}
OWNER = {"ode": "C01", "vMat": "C01", "eventRateVector": "C01", "pureOdeVector": "C01",
         "jacobian": "C03", "grad": "C03", "diff_jacobian": "C03", "grad_jacobian": "C03",
         "transitionJacobian": "C03", "transitionMean": "C03", "transitionVar": "C03"}


def ref_value(ref, name, x, t, theta):
    v = ref.num(REF_NAME[name], x, t, theta)
    if name in VECTOR:
        return v.ravel()
    return v


def expected_shape(ref, name):
    n, m, p = ref.n, ref.m, ref.p
    return {"ode": (n,), "jacobian": (n, n), "grad": (n, p), "diff_jacobian": (n * n, n),
            "grad_jacobian": (n * p, n), "vMat": (n, m), "eventRateVector": (m,), "pureOdeVector": (n,),
            "transitionJacobian": (m, m), "transitionMean": (m,), "transitionVar": (m,)}[name]


class Live(object):
    """The live PyGOM object, its evolving JSON definition, and the reference built from it."""

    def __init__(self, case):
        self.pg = core.boot()
        self.case = case
        self.model = copy.deepcopy(case["model"])
        procs = self.model.get("processes", [])
        self.routes = [pr.get("route", "event") for pr in procs]
        order = case.get("order")
        self.event_order = insertion_order(self.model, self.routes, order)
        kenv = case.get("env", {}).get("K", {"plan": ["numpy"]})
        self.k = None
        if "backend" in kenv:
            self.ode = build_model(self.pg, self.model, self.routes, order, backend=kenv["backend"])
        else:
            plan = list(kenv.get("plan", ["numpy"]))
            self.k = seams.KSeam(self.pg.ou, lambda i: plan[i % len(plan)]).install()
            try:
                self.ode = build_model(self.pg, self.model, self.routes, order)
            except BaseException:
                self.k.remove()
                raise
        self.values = {}               # RefParams: name -> value, or name -> ("either", a, b)
        self.bystander = None
        self.interleaves = 0
        self.refresh()

    def refresh(self):
        self.ref = RefModel(self.model, self.event_order)

    def close(self):
        if self.k is not None:
            self.k.remove()

    def theta(self):
        return [self.values.get(nm) for nm in self.ref.param_names]

    def theta_alternatives(self):
        """All concrete parameter vectors compatible with RefParams (narrow relaxation, C09)."""
        opts = []
        for nm in self.ref.param_names:
            v = self.values.get(nm)
            if isinstance(v, tuple):
                opts.append(list(v[1:]))
            else:
                opts.append([v])
        for combo in itertools.islice(itertools.product(*opts), 64):
            yield list(combo)

    def fired(self):
        f = dict(self.k.fired) if self.k is not None else {}
        if self.interleaves:
            f["H.interleave_other_model"] = self.interleaves
        return f

    def levels(self):
        return dict(self.k.levels_used) if self.k is not None else {}


BYSTANDER = {"states": [{"name": "U"}, {"name": "W"}], "params": ["k1", "k2"], "derived": [],
             "processes": [{"rate": "k1*U*W", "trans": [{"type": "T", "o": "U", "d": "W", "mag": "1"}], "route": "event"},
                           {"rate": "k2*W", "trans": [{"type": "D", "o": "W", "mag": "1"}], "route": "event"}],
             "odes": [{"state": "U", "eq": "0.1*k2"}]}
BYSTANDER_THETA = [0.3, 0.7]
BYSTANDER_POINT = ([2.5, 1.5], 0.5)


def bystander(live, op, step, out, stats, log, prefix):
    """Another client's model, living in the same process, is evaluated between this model's modifications and
    observations.  Its definition never changes, so it must keep returning what its reference gives; and its
    activity must not disturb the model under test (checked by the observations that follow)."""
    if live.bystander is None:
        live.bystander = build_model(live.pg, copy.deepcopy(BYSTANDER), backend="lambda")
        live.bystander.parameters = list(BYSTANDER_THETA)
        live.bystander_ref = RefModel(copy.deepcopy(BYSTANDER), [0, 1])
    live.interleaves += 1
    x, t = BYSTANDER_POINT
    for nm in op["names"]:
        try:
            got = core.num_array(evaluate(live.bystander, nm, x, t))
        except core.RunTimeout:
            raise
        except Exception as e:
            out.append(core.crash_failure(prefix, e, step, "%s(x,t) on an unmodified bystander model" % nm))
            continue
        want = ref_value(live.bystander_ref, nm, x, t, BYSTANDER_THETA)
        msg = cmp_arrays(got, want.reshape(expected_shape(live.bystander_ref, nm)), 1e-9, 1e-11, collapse_ok=True)
        log.append(["by", step, nm, core.digest(got.tolist(), 10)])
        if msg:
            out.append(fail("%s.bystander.%s" % (prefix, nm), step,
                            "%s(x,t) of a second, never modified model changed after the first model was used: %s" % (nm, msg)))
    stats["bystander_evaluations"] = stats.get("bystander_evaluations", 0) + len(op["names"])


def sibling(live, op, step, out, stats, log, prefix, rng):
    """A second model in the same process that is spelled exactly like the live one (same state, parameter and
    derived-parameter names, same rate strings) but DEFINES a derived parameter differently.  It is built and
    evaluated after the live model has been used; both must give what their own definitions say."""
    model2 = copy.deepcopy(live.model)
    for nm, eq in op["derived_alt"]:
        for d in model2.get("derived", []):
            if d[0] == nm:
                d[1] = eq
    procs = model2.get("processes", [])
    model2["processes"] = [dict(procs[i], route="event") for i in live.event_order]
    for o in model2.get("odes", []):
        o.pop("add", None)
    ref2 = RefModel(model2, list(range(len(model2["processes"]))))
    live.interleaves += 1
    stats["sibling_models"] = stats.get("sibling_models", 0) + 1
    try:
        ode2 = build_model(live.pg, model2, backend="lambda")
        th = live.theta()
        if ref2.p and all(v is not None and not isinstance(v, tuple) for v in th):
            ode2.parameters = list(th)
        names = ref2.state_names + ref2.param_names + ["t"]
        got, want = ode2.get_ode_eqn(), ref2.sym("f")
        for i in range(want.shape[0]):
            ok, _ = sym_equal(got[i, 0], want[i, 0], rng, names)
            if not ok:
                out.append(fail("%s.sibling.ode_eqn" % prefix, step, "a second model with the same spelling but another definition of %s: dx_%d/dt = %s, expected %s" % (
                    [d[0] for d in op["derived_alt"]], i, got[i, 0], want[i, 0])))
                break
        x, t = op["x"], op["t"]
        if all(v is not None and not isinstance(v, tuple) for v in th):
            for nm in ["ode"] + (["eventRateVector"] if ref2.m else []):
                g = core.num_array(evaluate(ode2, nm, x, t))
                w = ref_value(ref2, nm, x, t, th)
                msg = cmp_arrays(g, w.reshape(expected_shape(ref2, nm)), 1e-9, 1e-11, collapse_ok=True)
                log.append(["sib", step, nm, core.digest(g.tolist(), 10)])
                if msg:
                    out.append(fail("%s.sibling.%s" % (prefix, nm), step, "%s(x,t) of the second model: %s" % (nm, msg)))
    except core.RunTimeout:
        raise
    except core.HarnessError:
        raise
    except Exception as e:
        out.append(core.crash_failure(prefix, e, step, "building / evaluating a second model that differs in a derived-parameter definition"))


def fresh_model(live):
    """A newly constructed PyGOM model with the same final definition (C08's oracle): all processes
    through the constructor's event list in the live event order, parameters assigned by name."""
    pg = live.pg
    model = copy.deepcopy(live.model)
    procs = model.get("processes", [])
    model["processes"] = [dict(procs[i], route="event") for i in live.event_order]
    for o in model.get("odes", []):
        o.pop("add", None)
    ode = build_model(pg, model, backend="lambda")
    th = live.theta()
    if live.ref.p and all(v is not None and not isinstance(v, tuple) for v in th):
        ode.parameters = dict(zip(live.ref.param_names, th))
    return ode


# ---------------------------------------------------------------------------------------------------
# comparisons
# ---------------------------------------------------------------------------------------------------
def cmp_arrays(got, want, rtol, atol, collapse_ok=False):
    got = np.asarray(got, float)
    want = np.asarray(want, float)
    if collapse_ok and got.shape != want.shape and got.size == want.size and 1 in want.shape and got.ndim == 1:
        # PyGOM returns a matrix with a single row or column as a vector: same numbers, trivial order
        want = want.ravel()
    if got.shape != want.shape:
        return "shape %s, expected %s" % (got.shape, want.shape)
    if not np.all(np.isfinite(got)) and np.all(np.isfinite(want)):
        return "non-finite values %s" % (got.tolist(),)
    err = np.abs(got - want)
    tol = atol + rtol * np.maximum(np.abs(got), np.abs(want))
    if np.any(err > tol):
        k = int(np.argmax(err - tol))
        return "entry %d: %r, expected %r (max abs diff %.3g)" % (k, float(got.ravel()[k]), float(want.ravel()[k]), float(err.max()))
    return None


def evaluate(ode, name, x, t):
    return getattr(ode, name)(list(x), t) if False else getattr(ode, name)(np.array(x, float), t)


def check_eval(live, op, step, out, stats, log, prefix, against="ref", tag="eval"):
    """Evaluate the named evaluators at (x,t) on the live model and compare.
    against='ref'   -> the reference model (C01/C03/C09/C12 style)
    against='fresh' -> a freshly rebuilt PyGOM model (C08)"""
    ref = live.ref
    x, t = op["x"], op["t"]
    names = [nm for nm in op["names"] if not (nm in EVENT_EVALS and ref.m == 0)]
    fresh = None
    if against == "fresh":
        try:
            fresh = fresh_model(live)
        except core.RunTimeout:
            raise
        except Exception as e:
            stats["fresh_build_failed"] = stats.get("fresh_build_failed", 0) + 1
            return
    fresh_first = {}
    if against == "fresh" and op.get("fresh_first"):
        # another client evaluates ITS (fresh) model between the modification and this observation: two live
        # models in one process (H.interleave_other_model)
        live.interleaves += 1
        for nm in names:
            try:
                fresh_first[nm] = core.num_array(evaluate(fresh, nm, x, t))
            except core.RunTimeout:
                raise
            except Exception:
                fresh_first[nm] = None
    for nm in names:
        try:
            got = evaluate(live.ode, nm, x, t)
        except core.RunTimeout:
            raise
        except Exception as e:
            if against == "fresh":
                # only a failure if the fresh model can do it
                try:
                    evaluate(fresh, nm, x, t)
                except Exception:
                    continue
            out.append(core.crash_failure(prefix, e, step, "%s(x,t) after %s" % (nm, tag)))
            continue
        stats["evaluations"] = stats.get("evaluations", 0) + 1
        try:
            got = np.asarray(got, float)
        except (TypeError, ValueError) as e:
            out.append(fail("%s.value.%s" % (prefix, nm), step, "%s(x,t) did not return numbers: %r (%s)" % (nm, got, e)))
            continue
        log.append(["ev", step, nm, core.digest(got.tolist(), 10)])
        if against == "fresh":
            try:
                if nm in fresh_first:
                    if fresh_first[nm] is None:
                        raise ValueError("fresh model could not evaluate")
                    want = fresh_first[nm]
                else:
                    want = np.asarray(evaluate(fresh, nm, x, t), float)
            except Exception:
                stats["fresh_eval_failed"] = stats.get("fresh_eval_failed", 0) + 1
                continue
            msg = cmp_arrays(got, want, 1e-9, 1e-11)
            if msg:
                out.append(fail("%s.stale.%s" % (prefix, nm), step, "%s(x,t) on the modified model differs from a fresh model with the same definition: %s" % (nm, msg)))
            continue
        # against the reference: any parameter vector compatible with RefParams is acceptable
        ok = None
        msg = None
        for th in live.theta_alternatives():
            want = ref_value(ref, nm, x, t, th)
            if want.shape != expected_shape(ref, nm):
                want = want.reshape(expected_shape(ref, nm))
            msg = cmp_arrays(got, want, 1e-9, 1e-11, collapse_ok=True)
            if msg is None:
                ok = True
                if got.shape != want.shape:
                    stats["singleton_collapsed"] = stats.get("singleton_collapsed", 0) + 1
                break
        if not ok:
            kind = "shape" if msg.startswith("shape") else "value"
            out.append(fail("%s.%s.%s" % (prefix, kind, nm), step, "%s(x,t): %s" % (nm, msg)))


def check_identity(live, op, step, out, stats, prefix):
    """ode == vMat @ eventRateVector + pureOdeVector on PyGOM's own outputs (C01 iii)."""
    if live.ref.m == 0:
        return
    x, t = np.array(op["x"], float), op["t"]
    try:
        f = core.num_array(live.ode.ode(x, t))
        V = core.num_array(live.ode.vMat(x, t))
        a = core.num_array(live.ode.eventRateVector(x, t))
        g = core.num_array(live.ode.pureOdeVector(x, t))
    except core.RunTimeout:
        raise
    except Exception as e:
        out.append(core.crash_failure(prefix, e, step, "identity evaluation"))
        return
    if V.ndim != 2:
        return          # shape failure is reported by check_eval
    rhs = V.dot(a) + g
    scale = np.abs(V).dot(np.abs(a)) + np.abs(g)
    if f.shape != rhs.shape or np.any(np.abs(f - rhs) > 1e-9 * scale + 1e-11):
        out.append(fail("%s.identity" % prefix, step, "ode %s != vMat*rates + pure %s" % (f.tolist(), rhs.tolist())))


def check_symbolic(live, op, step, out, stats, log, prefix, rng):
    """Symbolic getters against the reference, identically in states, parameters and time."""
    ref = live.ref
    ode = live.ode
    names = ref.state_names + ref.param_names + ["t"]
    targets = op.get("names", ["ode_eqn", "vmat", "rates", "pure", "reactant"])
    for what in targets:
        try:
            if what == "ode_eqn":
                got, want = ode.get_ode_eqn(), ref.sym("f")
            elif what == "vmat":
                got, want = ode.get_StateChangeMatrix(), ref.sym("V")
            elif what == "rates":
                got, want = ode.get_EventRateVector(), ref.sym("a")
            elif what == "pure":
                got, want = ode.get_pureOdeVector(), ref.sym("g")
            elif what == "jac_eqn":
                got, want = ode.get_jacobian_eqn(), ref.sym("J")
            elif what == "grad_eqn":
                got, want = ode.get_grad_eqn(), ref.sym("G")
            elif what == "reactant":
                got = np.asarray(ode.get_ReactantMatrix())
                want = ref.reactant
                if got.shape != want.shape or not np.array_equal(got, want):
                    out.append(fail("%s.sym.reactant" % prefix, step, "reactant matrix %s, expected %s" % (got.tolist(), want.tolist())))
                continue
            else:
                raise core.HarnessError("unknown symbolic target %s" % what)
        except core.HarnessError:
            raise
        except core.RunTimeout:
            raise
        except Exception as e:
            out.append(core.crash_failure(prefix, e, step, "symbolic getter %s" % what))
            continue
        stats["symbolic"] = stats.get("symbolic", 0) + 1
        if ref.m == 0 and what in ("vmat", "rates"):
            continue
        if tuple(got.shape) != tuple(want.shape):
            out.append(fail("%s.sym.%s" % (prefix, what), step, "shape %s, expected %s" % (tuple(got.shape), tuple(want.shape))))
            continue
        for i in range(want.shape[0]):
            for j in range(want.shape[1]):
                ok, worst = sym_equal(got[i, j], want[i, j], rng, names)
                if not ok:
                    out.append(fail("%s.sym.%s" % (prefix, what), step, "entry (%d,%d): %s, expected %s" % (i, j, got[i, j], want[i, j])))
                    break
            else:
                continue
            break


# ---------------------------------------------------------------------------------------------------
# parameter assignment (C09) -- RefParams
# ---------------------------------------------------------------------------------------------------
def assign(live, op, step, out, stats, log, prefix):
    """Apply one assignment in the requested format; update RefParams with the documented rules."""
    pg = live.pg
    ode = live.ode
    names = live.ref.param_names
    fmt = op["fmt"]
    vals = op["values"]            # list of [name, value] in the order to be supplied
    reject = op.get("reject")
    if fmt in ("list", "tuple", "array"):
        seq = [v for _, v in vals]
        arg = {"list": list, "tuple": tuple, "array": lambda s: np.array(s, float)}[fmt](seq)
        full = True
    elif fmt == "array2d":
        arg = np.array([[float(v) + 0.5 * c_ for c_ in range(int(op.get("cols", 2)))] for _, v in vals], float)
        full = True
    elif fmt == "pairs":
        arg = [(nm, v) for nm, v in vals]
        full = True
    elif fmt == "dict":
        arg = {nm: v for nm, v in vals}
        full = False
    elif fmt in ("dict_sym", "dict_fsym", "dict_mix"):
        # keys: the model's own symbol / a Symbol the caller made himself (no or other assumptions) / the name
        import sympy
        kinds = op.get("kinds") or [{"dict_sym": "sym", "dict_fsym": "fsym"}.get(fmt, "name")] * len(vals)
        arg = {}
        for (nm, v), kind in zip(vals, kinds):
            key = nm
            if kind == "sym":
                sym = ode._paramDict.get(nm)
                key = sym if sym is not None else sympy.Symbol(nm)
            elif kind == "fsym":
                key = sympy.Symbol(nm)
            elif kind == "fsym_pos":
                key = sympy.Symbol(nm, positive=True)
            arg[key] = v
        full = False
    elif fmt == "scalar":
        arg = vals[0][1]
        full = True
    elif fmt == "single_tuple":
        arg = (vals[0][0], vals[0][1])
        full = True
    else:
        raise core.HarnessError("format %r" % fmt)
    log.append(["assign", step, fmt, reject, [[nm, core.canon(v)] for nm, v in vals]])
    try:
        ode.parameters = arg
        raised = None
    except core.RunTimeout:
        raise
    except BaseException as e:
        raised = e
    stats["assignments"] = stats.get("assignments", 0) + 1
    if reject:
        stats["rejected_ops"] = stats.get("rejected_ops", 0) + 1
        if raised is None:
            out.append(fail("%s.reject.%s" % (prefix, reject), step, "an assignment with %s (%s form) was accepted silently" % (reject.replace("_", " "), fmt)))
            # what it bound is unspecified: mark everything it mentioned as either
        # narrow relaxation: names mentioned by a rejected *dict* update may hold old or new value
        if fmt.startswith("dict") or raised is None:
            for nm, v in vals:
                if nm in live.values:
                    old = live.values[nm]
                    olds = list(old[1:]) if isinstance(old, tuple) else [old]
                    live.values[nm] = tuple(["either"] + olds + [v])
        return
    if raised is not None:
        where = core.pygom_frame(raised)
        if where is None:
            raise core.HarnessError("assignment raised outside the code under test: %r" % (raised,))
        out.append(fail("%s.crash.%s@%s" % (prefix, type(raised).__name__, where.split(":")[1]), step,
                        "valid assignment (%s form) raised %s: %s" % (fmt, type(raised).__name__, str(raised)[:200])))
        return
    if full:
        # full replacement: every name is bound; positional forms bind in declaration order
        if fmt in ("list", "tuple", "array"):
            live.values = {nm: v for nm, (_, v) in zip(names, vals)}
        else:
            live.values = {nm: v for nm, v in vals}
    else:
        for nm, v in vals:
            live.values[nm] = v


# ---------------------------------------------------------------------------------------------------
# mutators (C08)
# ---------------------------------------------------------------------------------------------------
def mutate(live, op, step, out, stats, log, prefix):
    pg = live.pg
    ode = live.ode
    kind = op["op"]
    log.append(["mut", step, kind])
    try:
        if kind == "add_process":
            pr = op["proc"]
            route = op.get("route", "event")
            slot, obj = make_process(pg, pr, route)
            if slot == "event":
                ode.add_event(obj)
            elif slot == "transition":
                ode.add_transition(obj)
            else:
                ode.add_birth_death(obj)
            live.model.setdefault("processes", []).append(dict(pr, route=route))
            live.event_order.append(len(live.model["processes"]) - 1)
        elif kind == "add_ode":
            ode.add_ode(pg.Transition(origin=op["state"], equation=op["eq"], transition_type="ODE"))
            live.model.setdefault("odes", []).append({"state": op["state"], "eq": op["eq"]})
        elif kind == "add_param":
            ode.param_list = [op["name"]]
            live.model["params"].append(op["name"])
            live.values[op["name"]] = None
        elif kind == "add_derived":
            ode.derived_param_list = [(op["name"], op["eq"])]
            live.model.setdefault("derived", []).append([op["name"], op["eq"]])
        else:
            raise core.HarnessError("mutator %r" % kind)
    except core.HarnessError:
        raise
    except core.RunTimeout:
        raise
    except Exception as e:
        out.append(core.crash_failure(prefix, e, step, "mutator %s" % kind))
        return False
    stats["mutations"] = stats.get("mutations", 0) + 1
    live.refresh()
    return True


# ---------------------------------------------------------------------------------------------------
# sensitivity algebra (C13)
# ---------------------------------------------------------------------------------------------------
def ref_aug(ref, z, t, theta, by_state=False, iv=False):
    """Reference augmented right-hand side and its exact Jacobian."""
    n, p = ref.n, ref.p
    z = np.asarray(z, float)
    x = z[:n]
    f = ref.rhs(x, t, theta)
    J = ref.num("J", x, t, theta)
    G = ref.num("G", x, t, theta) if p else np.zeros((n, 0))
    dJ = ref.num("dJ", x, t, theta)                 # row i*n+j, col l
    GJ = ref.num("GJ", x, t, theta) if p else np.zeros((0, n))   # row k*n+i, col l
    s = z[n:n + n * p]
    if by_state:
        S = s.reshape((n, p))
    else:
        S = s.reshape((n, p), order="F")
    A = J.dot(S) + G
    outs = [f, A.reshape(n * p) if by_state else A.reshape(n * p, order="F")]
    # d A[i,k] / d x_l = sum_j dJ[i*n+j, l] S[j,k] + GJ[k*n+i, l]
    dA = np.zeros((n, p, n))
    for i in range(n):
        for k in range(p):
            for l in range(n):
                dA[i, k, l] = sum(dJ[i * n + j, l] * S[j, k] for j in range(n)) + GJ[k * n + i, l]
    if by_state:
        dA_rows = dA.reshape(n * p, n)                              # row i*p+k
        dAdS = np.kron(J, np.eye(p))
    else:
        dA_rows = dA.transpose(1, 0, 2).reshape(n * p, n)           # row k*n+i
        dAdS = np.kron(np.eye(p), J)
    if not iv:
        jac = np.block([[J, np.zeros((n, n * p))], [dA_rows, dAdS]]) if p else J
        return np.concatenate(outs), jac
    s0 = z[n + n * p:]
    S0 = s0.reshape((n, n), order="F")
    B = J.dot(S0)
    outs.append(B.reshape(n * n, order="F"))
    dB = np.zeros((n, n, n))                                          # B[i,c] wrt x_l
    for i in range(n):
        for c in range(n):
            for l in range(n):
                dB[i, c, l] = sum(dJ[i * n + j, l] * S0[j, c] for j in range(n))
    dB_rows = dB.transpose(1, 0, 2).reshape(n * n, n)               # row c*n+i
    KJ = np.kron(np.eye(n), J)
    if p:
        jac = np.block([[J, np.zeros((n, n * p)), np.zeros((n, n * n))],
                        [dA_rows, dAdS, np.zeros((n * p, n * n))],
                        [dB_rows, np.zeros((n * n, n * p)), KJ]])
    else:
        jac = np.block([[J, np.zeros((n, n * n))], [dB_rows, KJ]])
    return np.concatenate(outs), jac


def check_sens(live, op, step, out, stats, log, prefix):
    ref, ode = live.ref, live.ode
    th = live.theta()
    z, t = np.array(op["z"], float), op["t"]
    iv = bool(op.get("iv"))
    by_state = bool(op.get("by_state"))
    want_f, want_J = ref_aug(ref, z, t, th, by_state=by_state, iv=iv)
    label = "IV" if iv else ("by_state" if by_state else "by_param")
    pre_J = None
    if op.get("jac_first"):
        try:
            pre_J = core.num_array(ode.ode_and_sensitivityIV_jacobian(z, t) if iv else ode.ode_and_sensitivity_jacobian(z, t, by_state))
        except core.RunTimeout:
            raise
        except Exception as e:
            out.append(core.crash_failure(prefix, e, step, "augmented jacobian (%s), asked for before the right-hand side" % label))
            return
    try:
        if iv:
            got_f = core.num_array(ode.ode_and_sensitivityIV(z, t))
        else:
            got_f = core.num_array(ode.ode_and_sensitivity(z, t, by_state))
    except core.RunTimeout:
        raise
    except Exception as e:
        out.append(core.crash_failure(prefix, e, step, "augmented rhs (%s)" % label))
        return
    stats["sens_evals"] = stats.get("sens_evals", 0) + 1
    log.append(["sens", step, label, core.digest(got_f.tolist(), 10)])
    # scale-aware comparison: the sensitivity blocks are J*S + G (and J*S0); when the sensitivities are small the
    # J*S part must still be there.  Per entry: 1e-9 relative, plus an absolute slack of 1e-11 x max(scale of the
    # sensitivities supplied, size of the S-independent part of that entry) for cancellation inside J*S
    n_ = ref.n
    sig = float(np.abs(z[n_:]).max()) if len(z) > n_ else 1.0
    z0 = z.copy()
    z0[n_:] = 0.0
    want_f0, want_J0 = ref_aug(ref, z0, t, th, by_state=by_state, iv=iv)
    msg = None
    if got_f.shape != want_f.shape:
        msg = "shape %s, expected %s" % (got_f.shape, want_f.shape)
    elif not np.all(np.isfinite(got_f)):
        msg = "non-finite values %s" % (got_f.tolist(),)
    else:
        # ... plus the absolute rounding floor of double arithmetic on the O(1) quantities that enter the same
        # products and sums (1e-13 x the largest S-independent entry)
        tol_f = 1e-9 * np.maximum(np.abs(got_f), np.abs(want_f)) + 1e-11 * np.maximum(min(sig, 1.0), np.abs(want_f0)) \
            + 1e-13 * (1.0 + float(np.abs(want_f0).max()) + float(np.abs(z[:n_]).max()))
        err_f = np.abs(got_f - want_f)
        if np.any(err_f > tol_f):
            k = int(np.argmax(err_f - tol_f))
            msg = "entry %d: %r, expected %r (J*S + G with max|S| = %.3g; the S-independent part of this entry is %r)" % (
                k, float(got_f[k]), float(want_f[k]), sig, float(want_f0[k]))
    if sig < 1e-3:
        stats["small_sensitivity_points"] = stats.get("small_sensitivity_points", 0) + 1
    if msg:
        out.append(fail("%s.rhs.%s" % (prefix, label), step, "augmented right-hand side: %s" % msg))
    try:
        if pre_J is not None:
            got_J = pre_J
        elif iv:
            got_J = core.num_array(ode.ode_and_sensitivityIV_jacobian(z, t))
        else:
            got_J = core.num_array(ode.ode_and_sensitivity_jacobian(z, t, by_state))
    except core.RunTimeout:
        raise
    except Exception as e:
        out.append(core.crash_failure(prefix, e, step, "augmented jacobian (%s)" % label))
        return
    msg = cmp_arrays(got_J, want_J, 1e-8, 1e-10)
    if msg:
        # confirm against central differences of PyGOM's own right-hand side before reporting
        fd = fd_jac(lambda zz: (ode.ode_and_sensitivityIV(zz, t) if iv else ode.ode_and_sensitivity(zz, t, by_state)), z)
        msg2 = cmp_arrays(got_J, fd, 1e-4, 1e-5 * (1.0 + np.abs(fd).max()))
        if msg2:
            out.append(fail("%s.jac.%s" % (prefix, label), step, "augmented Jacobian is not the derivative of the augmented right-hand side: %s" % msg))
        else:
            stats["jac_ref_only_mismatch"] = stats.get("jac_ref_only_mismatch", 0) + 1


def fd_jac(f, z, h=1e-6):
    z = np.asarray(z, float)
    f0 = np.asarray(f(z), float)
    J = np.zeros((len(f0), len(z)))
    for j in range(len(z)):
        e = np.zeros(len(z))
        hh = h * max(1.0, abs(z[j]))
        e[j] = hh
        J[:, j] = (np.asarray(f(z + e), float) - np.asarray(f(z - e), float)) / (2 * hh)
    return J


# ---------------------------------------------------------------------------------------------------
# driver
# ---------------------------------------------------------------------------------------------------
def execute(case, prefix, eval_against="ref"):
    import random
    out, stats, log, measure = [], {}, [], []
    live = None
    rng = random.Random(case.get("run_seed", 0) ^ 0x5eed)
    try:
        try:
            live = Live(case)
        except core.HarnessError:
            raise
        except core.RunTimeout:
            raise
        except Exception as e:
            out.append(core.crash_failure(prefix, e, -1, "model construction"))
            return finish(out, stats, log, live, measure)
        if case.get("theta") is not None and live.ref.p:
            names = live.ref.param_names
            try:
                live.ode.parameters = list(case["theta"])
            except (core.HarnessError, core.RunTimeout):
                raise
            except Exception as e:
                # a full-length ordered list is an accepted form for every declaration style
                out.append(core.crash_failure(prefix, e, -1, "initial ordered-list parameter assignment"))
                return finish(out, stats, log, live, measure)
            live.values = dict(zip(names, case["theta"]))
        for step, op in enumerate(case["ops"]):
            kind = op["op"]
            compiled_before = compiled_mask(live)
            if kind == "eval":
                check_eval(live, op, step, out, stats, log, prefix, against=op.get("against", eval_against))
                if op.get("identity"):
                    check_identity(live, op, step, out, stats, prefix)
            elif kind == "sym":
                check_symbolic(live, op, step, out, stats, log, prefix, rng)
            elif kind == "set_params":
                assign(live, op, step, out, stats, log, prefix)
            elif kind in ("add_process", "add_ode", "add_param", "add_derived"):
                mutate(live, op, step, out, stats, log, prefix)
            elif kind == "sens":
                check_sens(live, op, step, out, stats, log, prefix)
            elif kind == "bystander":
                bystander(live, op, step, out, stats, log, prefix)
            elif kind == "sibling":
                sibling(live, op, step, out, stats, log, prefix, rng)
            else:
                raise core.HarnessError("unknown op %r" % kind)
            measure.append([compiled_before, kind])
    finally:
        if live is not None:
            live.close()
    return finish(out, stats, log, live, measure)


def compiled_mask(live):
    """11-bit state: which evaluators are compiled AND not flagged stale (the canary state)."""
    mask = 0
    ode = live.ode
    try:
        st = ode._hasNewTransition._states
    except Exception:
        return -1
    for i, nm in enumerate(EVALUATORS):
        if hasattr(ode, nm + "Compiled") and not st.get(nm, True):
            mask |= 1 << i
    return mask


def finish(out, stats, log, live, measure):
    seen, uniq = set(), []
    for f in out:
        if f["oracle"] not in seen:
            seen.add(f["oracle"])
            uniq.append(f)
    log.append(["failures", sorted(seen)])
    faults = live.fired() if live is not None else {}
    if live is not None:
        for k_, v in live.levels().items():
            stats["level_" + k_] = stats.get("level_" + k_, 0) + v
    return {"failures": uniq, "stats": stats, "log": log, "faults": faults, "measure": measure,
            "nontrivial": False}


# ---------------------------------------------------------------------------------------------------
# generic reductions for session cases
# ---------------------------------------------------------------------------------------------------
def used_names(model):
    txt = " ".join([pr["rate"] for pr in model.get("processes", [])] +
                   [tr.get("mag", "1") for pr in model.get("processes", []) for tr in pr["trans"]] +
                   [o["eq"] for o in model.get("odes", [])] + [d[1] for d in model.get("derived", [])])
    return txt


def reductions(case):
    c = case

    def clone():
        return copy.deepcopy(c)
    ops = c["ops"]
    # drop operations (later ones first keeps indices of earlier failures stable)
    for i in range(len(ops) - 1, -1, -1):
        d = clone()
        del d["ops"][i]
        yield d
    # observe fewer evaluators
    for i, op in enumerate(ops):
        if op["op"] == "eval" and len(op["names"]) > 1:
            for nm in op["names"]:
                d = clone()
                d["ops"][i]["names"] = [nm]
                yield d
    # no compiler faults
    kenv = c.get("env", {}).get("K", {})
    if kenv != {"backend": "lambda"}:
        d = clone()
        d.setdefault("env", {})["K"] = {"backend": "lambda"}
        d["batch"] = "fault_free"
        yield d
    procs = c["model"].get("processes", [])
    for i in range(len(procs)):
        d = clone()
        del d["model"]["processes"][i]
        if d.get("order") is not None:
            d["order"] = [j - (j > i) for j in d["order"] if j != i]
        yield d
    for i, pr in enumerate(procs):
        if len(pr["trans"]) > 1:
            for j in range(len(pr["trans"])):
                d = clone()
                del d["model"]["processes"][i]["trans"][j]
                if "trans_event" in d["model"]["processes"][i].get("route", ""):
                    d["model"]["processes"][i]["route"] = "event"
                yield d
        for j, tr in enumerate(pr["trans"]):
            if tr.get("mag", "1") != "1":
                d = clone()
                d["model"]["processes"][i]["trans"][j]["mag"] = "1"
                yield d
        if pr.get("route", "event") != "event":
            d = clone()
            d["model"]["processes"][i]["route"] = "event"
            yield d
    for i in range(len(c["model"].get("odes", []))):
        d = clone()
        del d["model"]["odes"][i]
        yield d
    if c.get("order") is not None:
        d = clone()
        d["order"] = None
        yield d
    for key in ("state_decl", "param_decl"):
        if c["model"].get(key) in ("string", "objects"):
            d = clone()
            d["model"][key] = "list"
            yield d


# ---------------------------------------------------------------------------------------------------
# C12: the same process set through different routes / orders / declaration styles
# ---------------------------------------------------------------------------------------------------
def execute_variants(case, prefix):
    import random
    pg = core.boot()
    out, stats, log, measure = [], {}, [], []
    rng = random.Random(case.get("run_seed", 0) ^ 0xC12)
    base = case["model"]
    kenv = case.get("env", {}).get("K", {"backend": "lambda"})
    k = None
    if "backend" not in kenv:
        plan = list(kenv.get("plan", ["numpy"]))
        k = seams.KSeam(pg.ou, lambda i: plan[i % len(plan)]).install()
    built = []
    try:
        ref0 = RefModel(base)
        names = ref0.state_names + ref0.param_names + ["t"]
        theta = list(case["theta"])
        for vi, var in enumerate(case["variants"]):
            model = copy.deepcopy(base)
            kind = var.get("kind", "events")
            if kind == "explicit_ode":
                # the whole model as explicit ODE strings written out from the reference
                model["processes"] = []
                model["derived"] = []
                model["odes"] = [{"state": s, "eq": str(ref0.sym("f")[i])} for i, s in enumerate(ref0.state_names)]
                routes, order = [], []
            else:
                routes = list(var["routes"])
                order = list(var.get("order") or range(len(routes)))
                for pr, bb in zip(model["processes"], var.get("birth_by", [])):
                    for tr in pr["trans"]:
                        if tr["type"] == "B" and bb:
                            tr["birth_by"] = bb
            for key in ("state_decl", "state_sep", "param_decl", "param_sep", "state_display", "param_display"):
                if key in var:
                    model[key] = var[key]
            try:
                ode = build_model(pg, model, routes, order, backend=kenv.get("backend"))
                if ref0.p:
                    ode.parameters = dict(zip(ref0.param_names, theta)) if var.get("theta_as") == "dict" else list(theta)
            except core.RunTimeout:
                raise
            except Exception as e:
                out.append(core.crash_failure(prefix, e, vi, "building variant %d (%s)" % (vi, kind)))
                continue
            measure.append([kind, tuple(sorted(set(routes))), model.get("state_decl"), model.get("param_decl")])
            ref = ref0 if kind == "explicit_ode" else RefModel(model, insertion_order(model, routes, order))
            built.append((vi, kind, ode, ref))
            # symbolic equality with the reference
            try:
                eq = ode.get_ode_eqn()
                for i in range(ref0.n):
                    ok, _ = sym_equal(eq[i], ref0.sym("f")[i], rng, names)
                    if not ok:
                        out.append(fail("%s.route.ode_eqn" % prefix, vi, "variant %d (%s, routes %s): d%s/dt = %s, expected %s" % (
                            vi, kind, routes, ref0.state_names[i], eq[i], ref0.sym("f")[i])))
                        break
            except core.RunTimeout:
                raise
            except Exception as e:
                out.append(core.crash_failure(prefix, e, vi, "get_ode_eqn on variant %d" % vi))
                continue
            for (x, t) in case["points"]:
                for nm in ("ode", "jacobian") + (("eventRateVector",) if kind != "explicit_ode" and ref.m else ()):
                    try:
                        got = getattr(ode, nm)(np.array(x, float), t)
                    except core.RunTimeout:
                        raise
                    except Exception as e:
                        out.append(core.crash_failure(prefix, e, vi, "%s on variant %d" % (nm, vi)))
                        continue
                    try:
                        got = np.asarray(got, float)
                    except (TypeError, ValueError) as e:
                        out.append(fail("%s.route.%s" % (prefix, nm), vi, "variant %d: %s(x,t) did not return numbers: %r" % (vi, nm, got)))
                        continue
                    stats["evaluations"] = stats.get("evaluations", 0) + 1
                    log.append(["var", vi, nm, core.digest(got.tolist(), 10)])
                    want = ref_value(ref, nm, x, t, theta)
                    msg = cmp_arrays(got, want, 1e-9, 1e-11, collapse_ok=True)
                    if msg:
                        out.append(fail("%s.route.%s" % (prefix, nm), vi, "variant %d (%s, routes %s, order %s): %s" % (vi, kind, routes, order, msg)))
        # pairwise agreement of PyGOM's own outputs (summation order may differ: 1e-12 relative)
        for (x, t) in case["points"]:
            vals = []
            for vi, kind, ode, ref in built:
                try:
                    vals.append((vi, np.asarray(ode.ode(np.array(x, float), t), float)))
                except Exception:
                    pass
            for (va, a), (vb, b) in itertools.combinations(vals, 2):
                if a.shape != b.shape or np.any(np.abs(a - b) > 1e-11 * (1 + np.abs(a) + np.abs(b))):
                    # tolerance scaled by the terms, not the (possibly cancelling) sum
                    ref_terms = np.abs(ref0.num("V", x, t, theta)).dot(np.abs(ref0.rates(x, t, theta))) if ref0.m else 0.0
                    if a.shape != b.shape or np.any(np.abs(a - b) > 1e-11 * (1 + ref_terms + np.abs(ref0.num("g", x, t, theta).ravel()))):
                        out.append(fail("%s.route.pair" % prefix, va, "variants %d and %d disagree: %s vs %s" % (va, vb, a.tolist(), b.tolist())))
                        break
        stats["variants"] = len(built)
    finally:
        if k is not None:
            k.remove()
    seen, uniq = set(), []
    for f in out:
        if f["oracle"] not in seen:
            seen.add(f["oracle"])
            uniq.append(f)
    log.append(["failures", sorted(seen)])
    return {"failures": uniq, "stats": stats, "log": log, "faults": dict(k.fired) if k is not None else {},
            "measure": [list(map(lambda v: list(v) if isinstance(v, tuple) else v, m_)) for m_ in measure], "nontrivial": len(built) >= 2}


def variant_reductions(case):
    c = case

    def clone():
        return copy.deepcopy(c)
    if len(c["variants"]) > 1:
        for i in range(len(c["variants"])):
            d = clone()
            del d["variants"][i]
            yield d
    procs = c["model"].get("processes", [])
    for i in range(len(procs)):
        if len(procs) <= 1:
            break
        d = clone()
        del d["model"]["processes"][i]
        for v in d["variants"]:
            if "routes" in v:
                del v["routes"][i]
                if v.get("order"):
                    v["order"] = [j - (j > i) for j in v["order"] if j != i]
                if v.get("birth_by"):
                    del v["birth_by"][i]
        yield d
    for vi, v in enumerate(c["variants"]):
        if v.get("order"):
            d = clone()
            d["variants"][vi]["order"] = None
            yield d
        for key in ("state_decl", "param_decl"):
            if v.get(key) in ("string", "objects"):
                d = clone()
                d["variants"][vi][key] = "list"
                yield d
        for j, r in enumerate(v.get("routes", [])):
            if r != "event":
                d = clone()
                d["variants"][vi]["routes"][j] = "event"
                yield d
    if len(c["points"]) > 1:
        d = clone()
        d["points"] = d["points"][:1]
        yield d
    if c.get("env", {}).get("K") != {"backend": "lambda"}:
        d = clone()
        d["env"] = {"K": {"backend": "lambda"}}
        yield d

"""Engine "distn": the R-style distribution helpers (C19).  Only the seeding clause meets a seam
(the process-global numpy generator, consumed by other clients between and before the calls); the
d/p/q clauses are seeded reference comparison against scipy.stats in R's parameterisation."""
import copy
import math

import numpy as np
import scipy.stats as st

from .. import core

fail = core.fail

FAMILIES = {
    # name: (scipy dist, kind, arg names of the pygom functions)
    "exp": ("expon", "c"), "gamma": ("gamma", "c"), "norm": ("norm", "c"), "chisq": ("chi2", "c"),
    "unif": ("uniform", "c"), "beta": ("beta", "c"), "pois": ("poisson", "d"), "binom": ("binom", "d"),
    "nbinom": ("nbinom", "d"),
}
SEEDED = ["exp", "gamma", "norm", "chisq", "unif", "pois", "binom"]


def frozen(fam, par):
    if fam == "exp":
        return st.expon(scale=1.0 / par["rate"])
    if fam == "gamma":
        return st.gamma(a=par["shape"], scale=1.0 / par["rate"])
    if fam == "norm":
        return st.norm(loc=par["mean"], scale=par["sd"])
    if fam == "chisq":
        return st.chi2(df=par["df"])
    if fam == "unif":
        return st.uniform(loc=par["min"], scale=par["max"] - par["min"])
    if fam == "beta":
        return st.beta(par["shape1"], par["shape2"])
    if fam == "pois":
        return st.poisson(mu=par["mu"])
    if fam == "binom":
        return st.binom(n=par["size"], p=par["prob"])
    if fam == "nbinom":
        if "mu" in par:
            return st.nbinom(n=par["size"], p=par["size"] / (par["size"] + par["mu"]))
        return st.nbinom(n=par["size"], p=par["prob"])
    raise core.HarnessError(fam)


def call(ur, fn, fam, x, par, log=None, seed=None, n=None):
    f = getattr(ur, fn + fam)
    kw = dict(par)
    if log is not None:
        kw["log"] = log
    if fn == "r":
        return f(n, seed=seed, **kw)
    return f(x, **kw)


def gen_par(rng, fam):
    if fam == "exp":
        if rng.random() < 0.12:
            return {"rate": rng.choice([2, 3, 5, 10])}          # a whole-number rate given as a Python int
        return {"rate": round(10 ** rng.uniform(-2, 2), 5)}
    if fam == "gamma":
        if rng.random() < 0.12:
            return {"shape": rng.choice([1, 2, 5, round(rng.uniform(0.3, 20), 4)]), "rate": rng.choice([2, 3, 5])}
        return {"shape": round(rng.uniform(0.3, 20), 4), "rate": round(10 ** rng.uniform(-1.5, 1.5), 5)}
    if fam == "norm":
        return {"mean": round(rng.uniform(-5, 5), 4), "sd": round(10 ** rng.uniform(-1, 1), 4)}
    if fam == "chisq":
        return {"df": rng.choice([1, 2, 3, 5, 10, 2.5])}
    if fam == "unif":
        a = round(rng.uniform(-3, 3), 3)
        return {"min": a, "max": round(a + rng.uniform(0.2, 5), 3)}
    if fam == "beta":
        return {"shape1": round(rng.uniform(0.5, 6), 3), "shape2": round(rng.uniform(0.5, 6), 3)}
    if fam == "pois":
        return {"mu": round(10 ** rng.uniform(-1, 2), 4)}
    if fam == "binom":
        return {"size": rng.randint(1, 40), "prob": round(rng.uniform(0.05, 0.95), 4)}
    if fam == "nbinom":
        if rng.random() < 0.6:
            return {"size": round(rng.uniform(0.5, 15), 3), "mu": round(10 ** rng.uniform(-0.5, 1.5), 4)}
        return {"size": round(rng.uniform(0.5, 15), 3), "prob": round(rng.uniform(0.1, 0.9), 4)}
    raise core.HarnessError(fam)


def gen_x(rng, fam, par, k=4):
    fz = frozen(fam, par)
    us = [round(rng.uniform(0.02, 0.98), 6) for _ in range(k)]
    if rng.random() < 0.35:
        # far tails: probabilities down to 1e-15 and up to 1 - 1e-12 are valid arguments of q (and their quantiles
        # valid arguments of d and p)
        for j in range(rng.randint(1, k)):
            e = rng.choice([3, 6, 9, 12, 15])
            us[rng.randrange(k)] = 10.0 ** (-e) if (rng.random() < 0.6 or e > 12) else 1.0 - 10.0 ** (-e)
    xs = [float(fz.ppf(u)) for u in us]
    if FAMILIES[fam][1] == "c":
        xs = [round(v, 6) for v in xs]
        if fam == "unif":
            xs = [min(max(v, par["min"]), par["max"]) for v in xs]
        if fam == "beta":
            xs = [min(max(v, 1e-6), 1 - 1e-6) for v in xs]
        if fam in ("exp", "gamma", "chisq"):
            xs = [max(v, 1e-9) for v in xs]
        if rng.random() < 0.15:
            # arguments far out in the support, where the plain density / distribution function underflows to 0 but
            # its logarithm is an ordinary finite number
            j = rng.randrange(len(xs))
            if fam == "norm":
                xs[j] = round(par["mean"] + rng.choice([-1, 1]) * rng.choice([12.0, 40.0]) * par["sd"], 6)
            elif fam == "exp":
                xs[j] = round(rng.choice([400.0, 800.0]) / par["rate"], 6)
            elif fam == "gamma":
                xs[j] = round((par["shape"] + rng.choice([800.0, 1500.0])) / par["rate"], 6)
            elif fam == "chisq":
                xs[j] = float(rng.choice([1600, 3000]))
            elif fam == "beta":
                xs[j] = rng.choice([1e-200, 1e-150]) if par["shape1"] > 1.5 else xs[j]
    return xs, us


def gen_case(S, tier):
    rng = S("gen")
    ops = []
    for _ in range(rng.randint(4, 10)):
        fam = rng.choice(sorted(FAMILIES))
        par = gen_par(rng, fam)
        r = rng.random()
        if r < 0.35 and fam in SEEDED:
            ops.append({"op": "seeded", "fam": fam, "par": par, "n": rng.choice([1, 1, 2, 5, 17]),
                        "seed": rng.choice([0, 0, 1, 2 ** 32 - 2, 2 ** 31, 7]) if rng.random() < 0.3 else rng.randrange(2 ** 31),
                        "pre": rng.randint(0, 30), "mid": rng.randint(0, 30)})
        else:
            xs, us = gen_x(rng, fam, par)
            ops.append({"op": "dpq", "fam": fam, "par": par, "x": xs, "u": list(us),
                        "vector": rng.random() < 0.5})
    batch = "fault_injecting" if any(o["op"] == "seeded" and (o["pre"] or o["mid"]) for o in ops) else "fault_free"
    return {"engine": "distn", "ops": ops, "batch": batch, "consume_seed": rng.randrange(2 ** 32)}


def _close(a, b, rtol=1e-10, atol=1e-13):
    a = np.asarray(a, float)
    b = np.asarray(b, float)
    if a.shape != b.shape:
        return False
    both_inf = np.isinf(a) & np.isinf(b) & (np.sign(a) == np.sign(b))
    with np.errstate(invalid="ignore"):
        ok = np.abs(a - b) <= atol + rtol * np.maximum(np.abs(a), np.abs(b))
    # an infinite value on one side only is never 'close' (the tolerance would be infinite too)
    ok = ok & np.isfinite(a) & np.isfinite(b)
    return bool(np.all(ok | both_inf))


def execute(case):
    pg = core.boot()
    ur = pg.ur
    out, stats, log = [], {}, []
    np.random.seed(int(case.get("consume_seed", 0)) % (2 ** 32))
    interleaves = 0
    for step, op in enumerate(case["ops"]):
        fam, par = op["fam"], op["par"]
        fz = frozen(fam, par)
        try:
            if op["op"] == "seeded":
                if op["pre"]:
                    np.random.random(op["pre"])
                    interleaves += 1
                a = np.atleast_1d(call(ur, "r", fam, None, par, seed=op["seed"], n=op["n"])).astype(float)
                if op["mid"]:
                    np.random.standard_normal(op["mid"])
                    np.random.poisson(2.0, 3)
                    interleaves += 1
                b = np.atleast_1d(call(ur, "r", fam, None, par, seed=op["seed"], n=op["n"])).astype(float)
                c = np.atleast_1d(call(ur, "r", fam, None, par, seed=op["seed"] + 1, n=op["n"])).astype(float)
                stats["seeded_calls"] = stats.get("seeded_calls", 0) + 1
                log.append(["seeded", step, fam, core.digest(a.tolist())])
                if a.shape != (op["n"],) or not np.array_equal(a, b):
                    out.append(fail("C19.seed.%s" % fam, step, "r%s(%d, %s, seed=%d) twice: %s then %s" % (fam, op["n"], par, op["seed"], a.tolist(), b.tolist())))
                lo, hi = fz.support()
                if np.any(a < lo) or np.any(a > hi) or not np.all(np.isfinite(a)):
                    out.append(fail("C19.support.%s" % fam, step, "r%s drew %s outside the support [%s, %s]" % (fam, a.tolist(), lo, hi)))
                continue
            xs = op["x"]
            xin = np.array(xs, float) if op.get("vector") else None
            disc = FAMILIES[fam][1] == "d"
            have = lambda fn: hasattr(ur, fn + fam)
            mu_form = fam == "nbinom" and "mu" in par
            # d
            for lg in (False, True):
                want = (fz.logpmf(xs) if disc else fz.logpdf(xs)) if lg else (fz.pmf(xs) if disc else fz.pdf(xs))
                if xin is not None:
                    got = call(ur, "d", fam, xin, par, log=lg)
                else:
                    got = [call(ur, "d", fam, x, par, log=lg) for x in xs]
                stats["dpq_evals"] = stats.get("dpq_evals", 0) + len(xs)
                if got is None or not _close(got, want):
                    out.append(fail("C19.d.%s" % fam, step, "d%s(%s, %s, log=%s) = %s, reference %s" % (fam, xs, par, lg, np.asarray(got).tolist() if got is not None else None, np.asarray(want).tolist())))
                    break
            log.append(["d", step, fam])
            if fam == "nbinom":
                continue            # only the density is provided for nbinom
            # p
            if have("p"):
                for lg in (False, True):
                    want = fz.logcdf(xs) if lg else fz.cdf(xs)
                    got = call(ur, "p", fam, xin if xin is not None else np.array(xs, float), par, log=lg)
                    if not _close(got, want):
                        out.append(fail("C19.p.%s" % fam, step, "p%s(%s, %s, log=%s) = %s, reference %s" % (fam, xs, par, lg, np.asarray(got).tolist(), np.asarray(want).tolist())))
                        break
            # q
            if have("q"):
                us = op["u"]
                want = fz.ppf(us)
                got = getattr(ur, "q" + fam)(np.array(us, float), **par)
                if not _close(got, want, rtol=1e-9, atol=1e-300):      # quantiles near zero compare relatively
                    out.append(fail("C19.q.%s" % fam, step, "q%s(%s, %s) = %s, reference %s" % (fam, us, par, np.asarray(got).tolist(), np.asarray(want).tolist())))
                elif have("p") and not disc:
                    # the round trip is only well conditioned away from the upper tail (1 - p is formed in floating
                    # point): keep the points whose reference cdf is at most 0.999
                    keep = [i_ for i_, x_ in enumerate(xs) if 1e-290 <= float(fz.cdf(x_)) <= 0.999]      # and no underflow of p
                    xs_rt = [xs[i_] for i_ in keep]
                    back = getattr(ur, "q" + fam)(call(ur, "p", fam, np.array(xs_rt, float), par), **par) if xs_rt else []
                    if xs_rt and not _close(back, xs_rt, rtol=1e-6, atol=1e-9):
                        out.append(fail("C19.qp.%s" % fam, step, "q%s(p%s(x)) = %s for x = %s" % (fam, fam, np.asarray(back).tolist(), xs_rt)))
        except core.RunTimeout:
            raise
        except Exception as e:
            where = core.pygom_frame(e)
            if where is None:
                raise core.HarnessError("distn harness: %r" % (e,))
            out.append(fail("C19.crash.%s@%s" % (type(e).__name__, where.split(":")[1]), step, "%s %s %s raised %s: %s" % (op["op"], fam, par, type(e).__name__, str(e)[:200])))
    seen, uniq = set(), []
    for f in out:
        if f["oracle"] not in seen:
            seen.add(f["oracle"])
            uniq.append(f)
    log.append(["failures", sorted(seen)])
    faults = {"H.interleave": interleaves} if interleaves else {}
    return {"failures": uniq, "stats": stats, "log": log, "faults": faults, "measure": [[o["op"], o["fam"]] for o in case["ops"]],
            "nontrivial": len(case["ops"]) >= 2}


def reductions(case):
    c = case
    if len(c["ops"]) > 1:
        for i in range(len(c["ops"])):
            d = copy.deepcopy(c)
            d["ops"] = [c["ops"][i]]
            yield d
    for i, op in enumerate(c["ops"]):
        if op["op"] == "seeded":
            for key in ("pre", "mid"):
                if op.get(key):
                    d = copy.deepcopy(c)
                    d["ops"][i][key] = 0
                    yield d
            if op["n"] > 1:
                d = copy.deepcopy(c)
                d["ops"][i]["n"] = 1
                yield d
        elif len(op["x"]) > 1:
            d = copy.deepcopy(c)
            d["ops"][i]["x"] = op["x"][:1]
            d["ops"][i]["u"] = op["u"][:1]
            yield d

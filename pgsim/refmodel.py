"""Reference model: an independent, deliberately small reading of a JSON model definition.

Nothing in this module imports PyGOM.  The definition is the JSON process list described in
DESIGN.md section 5; every quantity the properties talk about is derived here from first principles
with sympy and evaluated on plain Python floats.
"""
import math

import numpy as np
import sympy as sp

_FUNCS = {
    "exp": sp.exp, "log": sp.log, "cos": sp.cos, "sin": sp.sin, "sqrt": sp.sqrt, "pi": sp.pi,
    "tanh": sp.tanh, "Abs": sp.Abs,
}


def expand_names(decl):
    """Expand PyGOM/sympy range-style names ('y1:4' -> y1,y2,y3) the way sympy.symbols does."""
    out = []
    for d in decl:
        syms = sp.symbols(d)
        if isinstance(syms, sp.Symbol):
            out.append(str(syms))
        else:
            out.extend(str(s) for s in syms)
    return out


class RefUndefined(Exception):
    """The reference itself is undefined at the requested point (division by zero, overflow): the
    generated point lies outside the domain the properties are stated on.  The run is void."""


class RefModel(object):
    def __init__(self, model, order=None):
        """order: indices of model['processes'] in event-list order (default: as listed)."""
        self.model = model
        self.order = order
        self.state_names = expand_names([s["name"] for s in model["states"]])
        self.limits = []
        for s in model["states"]:
            n = len(expand_names([s["name"]]))
            lim = s.get("lim")
            lim = (0, None) if lim is None else (lim[0], lim[1])
            self.limits.extend([lim] * n)
        self.param_names = expand_names(list(model["params"]))
        self.n = len(self.state_names)
        self.p = len(self.param_names)
        self.t = sp.Symbol("t")
        self.xs = [sp.Symbol(s) for s in self.state_names]
        self.ths = [sp.Symbol(s) for s in self.param_names]
        self.ns = dict(_FUNCS)
        for s in self.xs + self.ths + [self.t]:
            self.ns[str(s)] = s
        # derived parameters: each may use base parameters, states, t and earlier derived ones
        self.derived = {}
        for name, eq in model.get("derived", []):
            expr = self._parse(eq)
            self.derived[name] = expr
            self.ns[name] = expr
        self.events = []           # (rate expr, {state index: net signed magnitude expr})
        procs = model.get("processes", [])
        for i in (order if order is not None else range(len(procs))):
            self.events.append(self._event(procs[i]))
        self.m = len(self.events)
        self.g = [sp.Integer(0)] * self.n
        for o in model.get("odes", []):
            i = self.state_names.index(o["state"])
            self.g[i] = self.g[i] + self._parse(o["eq"])
        self._build()

    # -- parsing -------------------------------------------------------------------------------
    def _parse(self, s):
        return sp.sympify(str(s), locals=self.ns)

    def _event(self, pr):
        rate = self._parse(pr["rate"])
        col = {}
        involved = set()
        for tr in pr["trans"]:
            mag = self._parse(tr.get("mag", "1"))
            ty = tr["type"]
            if ty == "T":
                o = self.state_names.index(tr["o"])
                d = self.state_names.index(tr["d"])
                col[o] = col.get(o, 0) - mag
                col[d] = col.get(d, 0) + mag
                involved.update((o, d))
            elif ty == "B":
                d = self.state_names.index(tr["d"])
                col[d] = col.get(d, 0) + mag
                involved.add(d)
            elif ty == "D":
                o = self.state_names.index(tr["o"])
                col[o] = col.get(o, 0) - mag
                involved.add(o)
            else:
                raise ValueError(ty)
        return rate, col, involved

    def _build(self):
        n, m, p = self.n, self.m, self.p
        self.V = sp.zeros(n, m) if m else sp.zeros(n, 0)
        self.a = sp.zeros(m, 1)
        self.reactant = np.zeros((n, m), int)
        for j, (rate, col, involved) in enumerate(self.events):
            self.a[j] = rate
            for i, mag in col.items():
                self.V[i, j] = mag
            for i in involved:
                self.reactant[i, j] = 1
        self.gvec = sp.Matrix(n, 1, self.g)
        self.f = (self.V * self.a if m else sp.zeros(n, 1)) + self.gvec
        self._cache = {}

    # -- symbolic derived objects (lazy) -----------------------------------------------------------
    def sym(self, what):
        c = self._cache
        if what in c:
            return c[what]
        n, m, p = self.n, self.m, self.p
        if what == "f":
            r = self.f
        elif what == "V":
            r = self.V
        elif what == "a":
            r = self.a
        elif what == "g":
            r = self.gvec
        elif what == "J":
            r = self.f.jacobian(self.xs)
        elif what == "G":
            r = self.f.jacobian(self.ths) if p else sp.zeros(n, 0)
        elif what == "dJ":      # vertical stack over i of Hess_x f_i : (n*n, n)
            r = sp.zeros(n * n, n)
            for i in range(n):
                for j in range(n):
                    for k in range(n):
                        r[i * n + j, k] = sp.diff(self.f[i], self.xs[j], self.xs[k])
        elif what == "GJ":      # row k*n+i, col j: d2 f_i / d theta_k d x_j : (n*p, n)
            r = sp.zeros(n * p, n)
            for k in range(p):
                for i in range(n):
                    for j in range(n):
                        r[k * n + i, j] = sp.diff(self.f[i], self.ths[k], self.xs[j])
        elif what == "F":       # F[i,j] = sum_k d a_i/d x_k V[k,j]
            r = (self.a.jacobian(self.xs) * self.V) if m else sp.zeros(0, 0)
        elif what == "mu":
            r = self.sym("F") * self.a if m else sp.zeros(0, 1)
        elif what == "sig2":
            F = self.sym("F")
            r = sp.zeros(m, 1)
            for i in range(m):
                r[i] = sum(F[i, j] ** 2 * self.a[j] for j in range(m))
        elif what == "H":       # list over i of Hess_theta f_i
            r = [sp.hessian(self.f[i], self.ths) if p else sp.zeros(0, 0) for i in range(n)]
        else:
            raise KeyError(what)
        c[what] = r
        return r

    # -- numeric evaluation on python floats --------------------------------------------------------
    def fn(self, what):
        key = ("fn", what)
        if key not in self._cache:
            expr = self.sym(what)
            args = self.xs + [self.t] + self.ths
            rows, cols = expr.shape
            fs = [[sp.lambdify(args, expr[i, j], modules="math") for j in range(cols)] for i in range(rows)]
            self._cache[key] = (fs, rows, cols)
        return self._cache[key]

    def num(self, what, x, t, theta):
        fs, rows, cols = self.fn(what)
        args = [float(v) for v in x] + [float(t)] + [float(v) for v in theta]
        out = np.zeros((rows, cols))
        try:
            for i in range(rows):
                for j in range(cols):
                    out[i, j] = fs[i][j](*args)
        except (ZeroDivisionError, OverflowError, ValueError) as e:
            raise RefUndefined("%s at x=%s t=%s: %s" % (what, list(x), t, e))
        return out

    def rates(self, x, t, theta):
        return self.num("a", x, t, theta).ravel() if self.m else np.zeros(0)

    def rhs(self, x, t, theta):
        return self.num("f", x, t, theta).ravel()

    def Vnum(self, x, t, theta):
        return self.num("V", x, t, theta) if self.m else np.zeros((self.n, 0))

    def is_transition_only(self):
        if self.model.get("odes"):
            return False
        for pr in self.model.get("processes", []):
            for tr in pr["trans"]:
                if tr["type"] != "T":
                    return False
        return True

    def has_mixed_second_derivative(self):
        """True iff some d2 f_i/(d theta_k d x_j) or d2 f_i/d theta^2 is not identically zero."""
        for e in self.sym("GJ"):
            if sp.simplify(e) != 0:
                return True
        for H in self.sym("H"):
            for e in H:
                if sp.simplify(e) != 0:
                    return True
        return False


def rational_point(rng, names, lo=0.2, hi=4.0, den=64):
    """A random rational point {name: Rational} for exact/high-precision symbolic comparison."""
    pt = {}
    for nme in names:
        num = rng.randint(int(lo * den), int(hi * den))
        pt[nme] = sp.Rational(num, den)
    return pt


def sym_equal(expr_a, expr_b, rng, names, trials=3, digits=30):
    """Decide expr_a == expr_b identically by evaluation at random rational points, matching symbols
    BY NAME (PyGOM's symbols carry assumptions, the reference's do not)."""
    ea = sp.sympify(expr_a)
    eb = sp.sympify(expr_b)
    worst = 0.0
    for _ in range(trials):
        pt = rational_point(rng, names)
        va = _subs_by_name(ea, pt).evalf(digits)
        vb = _subs_by_name(eb, pt).evalf(digits)
        try:
            d = abs(complex(va) - complex(vb))
            scale = 1.0 + abs(complex(vb))
        except TypeError:
            return False, float("inf")     # unresolved free symbol on one side
        worst = max(worst, d / scale)
        if d > 1e-11 * scale:       # Float coefficients carry 15 digits; a real slip is O(1)
            return False, worst
    return True, worst


def _subs_by_name(expr, pt):
    m = {}
    for s in expr.free_symbols:
        if str(s) in pt:
            m[s] = pt[str(s)]
    return expr.subs(m)


def close(a, b, rtol, atol):
    a = np.asarray(a, float)
    b = np.asarray(b, float)
    if a.shape != b.shape:
        return False
    return bool(np.all(np.abs(a - b) <= atol + rtol * np.maximum(np.abs(a), np.abs(b))))


def maxdiff(a, b):
    a = np.asarray(a, float)
    b = np.asarray(b, float)
    if a.shape != b.shape:
        return float("inf")
    if a.size == 0:
        return 0.0
    return float(np.max(np.abs(a - b)))

"""Self-tests of the machinery (DESIGN section 6).

  ./check selftest-determinism [quick|thorough]   same seeds twice, several pool sizes, other PYTHONHASHSEED
  ./check selftest-sensitivity [only=<substr>]     mutant catalogue applied to scratch copies of /repo/src

Results are written to /verif/selftest/*.json.  Exit 0 iff everything is as expected.
"""
import importlib
import json
import os
import shutil
import subprocess
import sys
import tempfile
import time

from . import core

PROPS = ["C01", "C02", "C03", "C04", "C05", "C06", "C07", "C08", "C09", "C10", "C11", "C12", "C13", "C15", "C16",
         "C17", "C18", "C19", "C20"]
N_DET = {"C01": 200, "C02": 200, "C03": 200, "C04": 200, "C05": 64, "C06": 200, "C07": 200, "C08": 200, "C09": 200,
         "C10": 200, "C11": 200, "C12": 200, "C13": 200, "C15": 200, "C16": 200, "C17": 48, "C18": 48, "C19": 200, "C20": 200}


def _summ(recs):
    return [[r["index"], r["cdigest"], r["digest"], r["digest12"], sorted(f["oracle"] for f in r["failures"])] for r in recs]


def determinism(tier, rest):
    only = [a.split("=", 1)[1] for a in rest if a.startswith("only=")]
    props = [p for p in PROPS if not only or p in only]
    table = {}
    bad = 0
    t0 = time.time()
    for p in props:
        mod = importlib.import_module("pgsim.props.%s" % p)
        n = N_DET[p] if tier != "thorough" else N_DET[p] * 3
        a = _summ(core.run_batch(mod, "quick", n, workers=16, keep_cases=0))
        b = _summ(core.run_batch(mod, "quick", n, workers=4, keep_cases=0))
        c = _summ(core.run_batch(mod, "quick", max(8, n // 8), workers=1, keep_cases=0))
        same_ab = a == b
        same_ac = a[:len(c)] == c
        # fresh interpreter, another hash seed
        env = dict(os.environ)
        env["PYTHONHASHSEED"] = "1"
        env["PGSIM_NO_REEXEC"] = "1"
        out = subprocess.run([sys.executable, "-m", "pgsim.selftest", "digests", p, str(n)], cwd=core.VERIF, env=env,
                             stdout=subprocess.PIPE, stderr=subprocess.PIPE, timeout=7200)
        try:
            d = json.loads(out.stdout.decode().strip().splitlines()[-1])
        except Exception:
            d = None
        if d is None:
            same_hash = False
            exact_hash = False
        else:
            same_hash = [[x[0], x[1], x[3], x[4]] for x in a] == [[x[0], x[1], x[3], x[4]] for x in d]
            exact_hash = a == d
        ok = same_ab and same_ac and same_hash
        bad += 0 if ok else 1
        table[p] = {"runs": n, "pool16_vs_pool4": same_ab, "pool16_vs_pool1_prefix": same_ac,
                    "other_hashseed_fresh_interpreter_12digits": same_hash, "other_hashseed_bit_exact": exact_hash}
        print("determinism %s: %s %s" % (p, "ok" if ok else "MISMATCH", table[p]))
        sys.stdout.flush()
        if not ok and d is not None:
            for x, y in zip(a, d):
                if [x[0], x[1], x[3], x[4]] != [y[0], y[1], y[3], y[4]]:
                    print("  first difference at run", x, y)
                    break
            for x, y in zip(a, b):
                if x != y:
                    print("  first pool difference at run", x, y)
                    break
    os.makedirs(os.path.join(core.VERIF, "selftest"), exist_ok=True)
    if only and os.path.exists(os.path.join(core.VERIF, "selftest", "determinism.json")):
        # a partial re-run (after a harness correction) replaces only its own rows
        old = json.load(open(os.path.join(core.VERIF, "selftest", "determinism.json")))
        merged = dict(old.get("table", {}))
        for k_, v_ in table.items():
            merged[k_] = dict(v_, rerun=True)
        table = merged
    with open(os.path.join(core.VERIF, "selftest", "determinism.json"), "w") as f:
        json.dump({"seed": core.verif_seed(), "wall_s": round(time.time() - t0, 1), "table": table}, f, indent=1, sort_keys=True)
    return 0 if bad == 0 else 1


# ---------------------------------------------------------------------------------------------------
# mutant catalogue: (id, property expected to raise the alarm, file under src/, old, new) or ("revert", commit)
# ---------------------------------------------------------------------------------------------------
M = []


def mut(mid, prop, path, old, new, note="", equivalent=False):
    M.append({"id": mid, "prop": prop, "path": path, "old": old, "new": new, "note": note, "equivalent": equivalent})


def rev(mid, prop, commit, note=""):
    M.append({"id": mid, "prop": prop, "revert": commit, "note": note})


DET = "pygom/model/deterministic.py"
BASE = "pygom/model/base_ode_model.py"
SIM = "pygom/model/simulate.py"
SS = "pygom/model/stochastic_simulation.py"
OU = "pygom/model/ode_utils/__init__.py"
BL = "pygom/loss/base_loss.py"
LT = "pygom/loss/loss_type.py"
DI = "pygom/utilR/distn.py"
AB = "pygom/approximate_bayesian_computation/approximate_bayesian_computation.py"
TR = "pygom/model/transition.py"
MV = "pygom/model/_model_verification.py"

mut("C01-origin-sign", "C01", DET, "                    between_state_ode[origin_index] -= rate_of_change", "                    between_state_ode[origin_index] += rate_of_change")
mut("C01-vmat-dest-sign", "C01", BASE, "                    self._vMat[origin_index, event_index] -= magnitude\n                    self._vMat[destination_index, event_index] += magnitude",
    "                    self._vMat[origin_index, event_index] -= magnitude\n                    self._vMat[destination_index, event_index] -= magnitude")
mut("C01-derived-not-substituted", "C01", MV, "        if subs_derived:", "        if False:")
mut("C01-ode-terms-overwrite", "C01", DET, "            pure_ode[origin_index] += checkEquation(ode.equation, *self._getListOfVariablesDict())\n\n        # Collect",
    "            pure_ode[origin_index] = checkEquation(ode.equation, *self._getListOfVariablesDict())\n\n        # Collect")
mut("C01-birth-magnitude-dropped", "C01", DET, "                    birth_death_ode[destination_index] += rate_of_change", "                    birth_death_ode[destination_index] += rate")
mut("C03-jacobian-transposed", "C03", DET, "        self._Jacobian = self._ode.jacobian(states)", "        self._Jacobian = self._ode.jacobian(states).T")
mut("C03-gradjac-index", "C03", DET, "                    z = k*self.num_state + i", "                    z = i*self.num_param + k")
mut("C03-F-wrong-column", "C03", SIM, "diffEqn*self._vMat[state_index, event_index_j]", "diffEqn*self._vMat[state_index, event_index_i]")
mut("C03-variance-not-squared", "C03", SIM, "F[event_index_i, event_index_j] * F[event_index_i, event_index_j] * rate_j", "F[event_index_i, event_index_j] * rate_j")
rev("C02-revert-D1-copy", "C02", "68e1fb2")
rev("C02-revert-D14-1d-jacobian", "C02", "55a45d2")
mut("C02-origin-row-last", "C02", OU, "    if includeOrigin:\n        solution.append(x0)\n\n    if isinstance(t, Number):", "    if isinstance(t, Number):")
mut("C02-resetup-wrong-state", "C02", OU, "            r = _setupIntegrator(func, jac, o1, deltaT, args, method, nsteps)", "            r = _setupIntegrator(func, jac, x0, deltaT, args, method, nsteps)")
rev("C04-revert-D2-vmat", "C04", "8a67e4c")
mut("C04-jump-off-by-one", "C04", SS, "    jumps[min_index]=1", "    jumps[min_index-1]=1")
mut("C04-time-not-advanced", "C04", SS, "        t_new = t + jump_time", "        t_new = t + jump_time*(len(jumps) < 5)")
mut("C05-argmax", "C05", SS, "    min_index = np.argmin(jump_times)\n    new_x = _updateStateWithJump(x, min_index, changes)", "    min_index = np.argmax(np.where(np.isinf(jump_times), -1, jump_times))\n    new_x = _updateStateWithJump(x, min_index, changes)")
mut("C05-rexp-scale-is-rate", "C05", DI, "    if n > 1:\n        return rvs(scale=1.0/rate, size=n)\n    else:\n        return rvs(scale=1.0/rate, size=n)[0]", "    if n > 1:\n        return rvs(scale=1.0/rate, size=n)\n    else:\n        return rvs(scale=rate, size=n)[0]")
mut("C05-clock-bias", "C05", SS, "    tau = [rexp(1, r, seed=seed) if r > 0 else np.inf for r in rates]", "    tau = [rexp(1, r, seed=seed)*(1.0 + 0.15*(i == 0)) if r > 0 else np.inf for i, r in enumerate(rates)]")
mut("C06-state-index-sorted", "C06", BL, "        self._stateIndex = self._ode.get_state_index(self._stateName)", "        self._stateIndex = sorted(self._ode.get_state_index(self._stateName))")
mut("C06-observe-time-shift", "C06", BL, "                                              self._x0, self._t0,\n                                              self._observeT,", "                                              self._x0, self._t0,\n                                              self._t[:-1] if len(self._t) > 6 else self._observeT,")
rev("C06-revert-D19-integer-x0", "C06", "a065101")
rev("C07-revert-D5-sorted-index", "C07", "63e0d2e")
rev("C07-revert-D6-target-state", "C07", "3a7ee3a")
rev("C07-revert-D7-gamma", "C07", "6aab358")
rev("C07-revert-D15-vector-weights", "C07", "85085a7")
mut("C07-poisson-diffloss-sign", "C07", LT, "        residual = self.residual(yhat, apply_weighting)\n        return -residual/yhat\n", "        residual = self.residual(yhat, apply_weighting)\n        return residual/yhat\n")
rev("C08-revert-D10-add-ode", "C08", "4d20bf6")
mut("C08-add-event-no-trip", "C08", BASE, "        if isinstance(event, Event):\n            self._eventList.append(event)\n            self._hasNewTransition.trip()", "        if isinstance(event, Event):\n            self._eventList.append(event)")
mut("C08-derived-no-trip", "C08", BASE, "        self._hasNewTransition.trip()\n        self._derivedParamEqn += [(name, eqn)]", "        self._derivedParamEqn += [(name, eqn)]",
    note="equivalent: a new derived parameter changes no evaluator until a process uses it, and adding that process trips the flags itself", equivalent=True)
mut("C08-master-canary-dropped", "C08", DET, "        if is_master_canary:\n            self._hasNewTransition.trip()", "        if False:\n            self._hasNewTransition.trip()",
    note="equivalent: every mutator already trips every flag and every generator re-derives the ODE itself, so the extra trip on recompiling ode changes nothing observable", equivalent=True)
mut("C08-param-list-no-trip", "C08", BASE, "            raise InputError(\"Expecting a list\")\n\n        self._hasNewTransition.trip()\n\n    @property\n    def derived_param_list", "            raise InputError(\"Expecting a list\")\n\n    @property\n    def derived_param_list")
mut("C09-pairs-by-position", "C09", BASE, "                            index_temp = f(parameters[i][0])", "                            index_temp = f(str(self._paramList[i]))")
mut("C09-partial-resets", "C09", BASE, "                if hasattr(self, \"_parameters\"):\n                    param_out = self._parameters", "                if False:\n                    param_out = self._parameters")
mut("C09-long-list-accepted", "C09", BASE, "                if len(parameters) == self.num_param:\n                    if isinstance(parameters, np.ndarray):", "                if len(parameters) >= self.num_param:\n                    parameters = parameters[:self.num_param]\n                    if isinstance(parameters, np.ndarray):")
rev("C09-revert-D18-reserved-t", "C09", "38420a1")
mut("C10-origin-loses-one", "C10", DET, "                    between_state_ode[origin_index] -= rate_of_change", "                    between_state_ode[origin_index] -= rate")
mut("C10-stoch-origin-loses-one", "C10", BASE, "                    self._vMat[origin_index, event_index] -= magnitude\n                    self._vMat[destination_index, event_index] += magnitude", "                    self._vMat[origin_index, event_index] -= 1\n                    self._vMat[destination_index, event_index] += magnitude")
rev("C11-revert-D12-range-limits", "C11", "813b45c")
mut("C11-upper-ignored-with-lower", "C11", SS, "                if x_new[i]<x_min or x_new[i]>x_max:", "                if x_new[i]<x_min:")
mut("C11-rejected-step-advances-time", "C11", SS, "        x_new=x\n        t_new=t\n", "        x_new=x\n        t_new=t + jump_time\n")
rev("C12-revert-D11-event-rate", "C12", "f4cd1f0")
mut("C12-legacy-transition-reversed", "C12", BASE, "                trans=Transition(origin=transition.origin,\n                                 destination=transition.destination,", "                trans=Transition(origin=transition.destination,\n                                 destination=transition.origin,")
mut("C12-split-loses-token", "C12", BASE, "                attr = filter(lambda x: not len(x.strip()) == 0, attr)\n            self.__setattr__(attr_list_name, list(attr))", "                attr = list(filter(lambda x: not len(x.strip()) == 0, attr))\n                attr = attr[:-1] if len(attr) > 3 else attr\n            self.__setattr__(attr_list_name, list(attr))")
rev("C13-revert-D9-by-state-jacobian", "C13", "44491f0")
mut("C13-vec-to-mat-C-order", "C13", OU, "    return np.reshape(s, (numState, numParam), 'F')", "    return np.reshape(s, (numState, numParam), 'C')")
mut("C13-iv-kron-swapped", "C13", DET, "                [A, np.zeros((nS*nS, nS*nP)), np.kron(np.eye(nS), J)]", "                [A, np.zeros((nS*nS, nS*nP)), np.kron(J, np.eye(nS))]")
rev("C15-revert-D3-counts", "C15", "4c657ee")
rev("C15-revert-D13-no-event", "C15", "08026a9")
mut("C15-lookup-off-by-one", "C15", SIM, "                index = max(np.searchsorted(t, t_target) - 1, 0)", "                index = max(np.searchsorted(t, t_target), 0) if len(t) > np.searchsorted(t, t_target) else len(t) - 1")
mut("C16-unseeded-generator-in-serial", "C16", SIM, "            xtmp = [self._jump(finalT, exact=exact, full_output=True) for _i in range(iteration)]\n\n        # Unpack output", "            xtmp = [self._jump(finalT, exact=exact, full_output=True, seed=True) for _i in range(iteration)]\n\n        # Unpack output")
mut("C16-mean-wrong-axis", "C16", SIM, "            solutionList = [self.integrate(t) for i in range(iteration)]\n\n        # now make our 3D array\n        # the first dimension is the number of iteration\n        Y = np.dstack(solutionList).mean(axis=2)\n\n        if full_output:\n            return Y, solutionList\n        else:\n            return Y\n        \n    def solve_determ",
    "            solutionList = [self.integrate(t) for i in range(iteration)]\n\n        # now make our 3D array\n        # the first dimension is the number of iteration\n        Y = np.dstack(solutionList[:-1]).mean(axis=2)\n\n        if full_output:\n            return Y, solutionList\n        else:\n            return Y\n        \n    def solve_determ")
mut("C17-no-density-test", "C17", AB, "            w1 = np.prod([self.parameters[i].density(trial_params[i]) for i in range(self.numParam)])\n            if w1:\n                # converting from log-scale and ensuring total population size is conserved\n                model_params = self._log_parameters(trial_params.copy())\n                par_update(model_params[self.par_order])\n                if hasattr(self,\"con_state\"): ",
    "            w1 = np.prod([self.parameters[i].density(trial_params[i]) for i in range(self.numParam)])\n            if True:\n                w1 = w1 if w1 else 1e-300\n                # converting from log-scale and ensuring total population size is conserved\n                model_params = self._log_parameters(trial_params.copy())\n                par_update(model_params[self.par_order])\n                if hasattr(self,\"con_state\"): ")
mut("C17-relaxed-acceptance", "C17", AB, "                cost = self.obj.cost()\n                if cost < tolerance:\n                    if generation == 0:", "                cost = self.obj.cost()\n                if cost < tolerance*1.25:\n                    if generation == 0:")
mut("C17-backtransform-skipped", "C17", AB, "            params[self.log] = 10**params[self.log]", "            params[self.log] = params[self.log]")
rev("C09-revert-D21-ordered-list-display-name", "C09", "5108640")
rev("C18-revert-D20-fit-guard", "C18", "a143273")
mut("C18-bounds-packing", "C18", BL, "        box_bounds = np.reshape(np.append(lb, ub), (len(lb), 2), 'F')", "        box_bounds = np.reshape(np.append(lb, ub), (len(lb), 2), 'C')")
mut("C18-returns-start", "C18", BL, "        if full_output:\n            return res['x'], res\n        else:\n            return res['x']", "        if full_output:\n            return res['x'], res\n        else:\n            return res['x'] if res['success'] else res['x']*1.5")
rev("C19-revert-D4a-dchisq", "C19", "8d7810a")
rev("C19-revert-D4b-pchisq", "C19", "c188dad")
rev("C19-revert-D4c-runif", "C19", "dd32119")
rev("C19-revert-D4d-dbeta", "C19", "2c36499")
mut("C19-gamma-scale", "C19", DI, "        return st.gamma.logcdf(q, a=shape, scale=1.0/rate)", "        return st.gamma.logcdf(q, a=shape, scale=rate)")
rev("C20-revert-D16-hessian-sign", "C20", "fb7bf00")
mut("C20-jtj-double", "C20", BL, "            if resid is None:\n                J += np.dot(s.T, s)", "            if resid is None:\n                J += np.dot(s.T, s) + np.diag(np.diag(np.dot(s.T, s)))*1e-3")


def apply_mutant(m, dest_src):
    if "revert" in m:
        diff = subprocess.run(["git", "-C", "/repo", "diff", m["revert"] + "^", m["revert"], "--", "src"],
                              stdout=subprocess.PIPE, check=True).stdout
        p = subprocess.run(["patch", "-R", "-p1", "--binary", "-d", os.path.dirname(dest_src)], input=diff,
                           stdout=subprocess.PIPE, stderr=subprocess.STDOUT)
        if p.returncode != 0:
            raise RuntimeError("revert %s does not apply: %s" % (m["revert"], p.stdout.decode()[-500:]))
        return
    path = os.path.join(dest_src, m["path"])
    b = open(path, "rb").read()
    crlf = b"\r\n" in b
    o, n = m["old"].encode(), m["new"].encode()
    if crlf:
        o, n = o.replace(b"\n", b"\r\n"), n.replace(b"\n", b"\r\n")
    if b.count(o) != 1:
        raise RuntimeError("mutant %s: pattern occurs %d times in %s" % (m["id"], b.count(o), m["path"]))
    open(path, "wb").write(b.replace(o, n))


def sensitivity(tier, rest):
    only = [a.split("=", 1)[1] for a in rest if a.startswith("only=")]
    muts = [m for m in M if not only or any(o in m["id"] for o in only)]
    results = []
    t0 = time.time()
    missed = 0
    tmp = os.environ.get("TMPDIR") or "/tmp"
    for m in muts:
        work = tempfile.mkdtemp(prefix="pgsim-mut-", dir=tmp)
        try:
            shutil.copytree(os.path.join("/repo", "src"), os.path.join(work, "src"),
                            ignore=shutil.ignore_patterns("*.so", "__pycache__", "*.pyc"))
            apply_mutant(m, os.path.join(work, "src"))
            env = dict(os.environ)
            env["PYGOM_VERIF_SRC"] = os.path.join(work, "src")
            env["PGSIM_EVIDENCE_DIR"] = os.path.join(work, "evidence")     # a mutant's run is not evidence
            env["PGSIM_REPLAY_DIR"] = os.path.join(work, "replays")
            t1 = time.time()
            p = subprocess.run([os.path.join(core.VERIF, "check"), m["prop"], "quick"], cwd=core.VERIF, env=env,
                               stdout=subprocess.PIPE, stderr=subprocess.STDOUT, timeout=3600)
            out = p.stdout.decode(errors="replace")
            viol = [ln for ln in out.splitlines() if ln.startswith("VIOLATION")]
            oracles = sorted(set(ln.split("oracle=")[1].split()[0] for ln in viol if "oracle=" in ln))
            caught = p.returncode == 1 and bool(viol)
            equiv = bool(m.get("equivalent"))
            results.append({"id": m["id"], "property": m["prop"], "caught": caught, "exit": p.returncode, "oracles": oracles,
                            "wall_s": round(time.time() - t1, 1), "equivalent_mutant": equiv, "note": m.get("note", "")})
            ok = caught or (equiv and p.returncode == 0)
            missed += 0 if ok else 1
            print("mutant %-38s %s exit=%d %s" % (m["id"], "CAUGHT" if caught else ("EQUIVALENT (no alarm, as expected)" if ok else "MISSED"), p.returncode, oracles))
            if not ok:
                print("    " + "\n    ".join(out.splitlines()[-6:]))
            sys.stdout.flush()
        except Exception as e:
            results.append({"id": m["id"], "property": m["prop"], "caught": False, "error": str(e)[:500]})
            missed += 1
            print("mutant %s: ERROR %s" % (m["id"], e))
        finally:
            shutil.rmtree(work, ignore_errors=True)
            # replay files written while a mutant was applied are not evidence of anything
            for fn in os.listdir(os.path.join(core.VERIF, "replays")) if os.path.isdir(os.path.join(core.VERIF, "replays")) else []:
                pass
    os.makedirs(os.path.join(core.VERIF, "selftest"), exist_ok=True)
    name = "sensitivity.json" if not only else "sensitivity-partial.json"
    with open(os.path.join(core.VERIF, "selftest", name), "w") as f:
        json.dump({"seed": core.verif_seed(), "wall_s": round(time.time() - t0, 1), "mutants": len(muts), "missed": missed,
                   "results": results}, f, indent=1, sort_keys=True)
    print("sensitivity: %d mutants, %d missed, %.0f s" % (len(muts), missed, time.time() - t0))
    return 0 if missed == 0 else 1


def seeded(tier, rest):
    """Apply every independently seeded change under /verif/seeded/<id>/ to a scratch copy of the source and run the
    quick check of its property (plus the neighbouring properties named in meta 'also'): it must raise the alarm.
    Changes that a later repair neutralised ('-led-to-') must raise none."""
    only = [a.split("=", 1)[1] for a in rest if a.startswith("only=")]
    sdir = os.path.join(core.VERIF, "seeded")
    ids = sorted(d for d in os.listdir(sdir) if os.path.exists(os.path.join(sdir, d, "meta.json")))
    ids = [d for d in ids if not only or any(o in d for o in only)]
    results, bad = [], 0
    t0 = time.time()
    tmp = os.environ.get("TMPDIR") or "/tmp"
    for sid in ids:
        meta = json.load(open(os.path.join(sdir, sid, "meta.json")))
        neutral = "-led-to-" in sid or "-neutralised-" in sid
        rare = bool(meta.get("rare")) or bool(meta.get("uncovered"))
        props = [meta["property"]] + [p for p in meta.get("also", []) if p != meta["property"]]
        work = tempfile.mkdtemp(prefix="pgsim-seeded-", dir=tmp)
        try:
            shutil.copytree(os.path.join("/repo", "src"), os.path.join(work, "src"),
                            ignore=shutil.ignore_patterns("*.so", "__pycache__", "*.pyc"))
            pr = subprocess.run(["git", "apply", "--whitespace=nowarn", os.path.join(sdir, sid, "patch.diff")], cwd=work,
                                stdout=subprocess.PIPE, stderr=subprocess.STDOUT)
            if pr.returncode != 0:
                pr = subprocess.run(["patch", "-p1", "--binary", "-d", work, "-i", os.path.join(sdir, sid, "patch.diff")],
                                    stdout=subprocess.PIPE, stderr=subprocess.STDOUT)
            if pr.returncode != 0:
                res = {"id": sid, "applies": False, "caught": False, "note": "patch no longer applies to the current tree"}
                results.append(res)
                bad += 0 if neutral else 1
                print("seeded %-22s does not apply" % sid)
                continue
            env = dict(os.environ)
            env["PYGOM_VERIF_SRC"] = os.path.join(work, "src")
            env["PGSIM_EVIDENCE_DIR"] = os.path.join(work, "evidence")
            env["PGSIM_REPLAY_DIR"] = os.path.join(work, "replays")
            caught_by, oracles = [], []
            for p_ in props:
                pc = subprocess.run([os.path.join(core.VERIF, "check"), p_, "quick"], cwd=core.VERIF, env=env,
                                    stdout=subprocess.PIPE, stderr=subprocess.STDOUT, timeout=7200)
                out = pc.stdout.decode(errors="replace")
                viol = [ln for ln in out.splitlines() if ln.startswith("VIOLATION")]
                if pc.returncode == 1 and viol:
                    caught_by.append(p_)
                    oracles += sorted(set(ln.split("oracle=")[1].split()[0] for ln in viol if "oracle=" in ln))
                    break
            ok = (not caught_by) if neutral else (bool(caught_by) or rare)
            bad += 0 if ok else 1
            results.append({"id": sid, "property": meta["property"], "applies": True, "caught": bool(caught_by),
                            "caught_by": caught_by, "oracles": oracles[:6], "neutralised_by_a_repair": neutral})
            print("seeded %-22s %s %s %s" % (sid, "CAUGHT" if caught_by else ("no alarm (neutralised, as expected)" if neutral else
                                                                               ("not caught (rare trigger or documented gap, see meta)" if rare else "MISSED")),
                                             caught_by, oracles[:3]))
            sys.stdout.flush()
        finally:
            shutil.rmtree(work, ignore_errors=True)
    with open(os.path.join(core.VERIF, "selftest", "seeded.json" if not only else "seeded-partial.json"), "w") as f:
        json.dump({"seed": core.verif_seed(), "wall_s": round(time.time() - t0, 1), "changes": len(ids), "not_as_expected": bad,
                   "results": results}, f, indent=1, sort_keys=True)
    print("seeded: %d changes, %d not as expected, %.0f s" % (len(ids), bad, time.time() - t0))
    return 0 if bad == 0 else 1


def main(name, tier, rest):
    core.boot()
    if name == "selftest-seeded":
        return seeded(tier, rest)
    if name == "selftest-determinism":
        return determinism(tier, rest)
    if name == "selftest-sensitivity":
        return sensitivity(tier, rest)
    print("unknown selftest", name)
    return 2


if __name__ == "__main__":
    if len(sys.argv) >= 4 and sys.argv[1] == "digests":
        core.boot()
        mod = importlib.import_module("pgsim.props.%s" % sys.argv[2])
        recs = core.run_batch(mod, "quick", int(sys.argv[3]), workers=8, keep_cases=0)
        print(json.dumps(_summ(recs)))

"""Build real PyGOM objects from a JSON model definition (the only place that knows PyGOM's
constructors).  Route per process:

  event        Event(rate=..., transition_list=[Transition(...)...]) in the constructor's event= list
  event_eq     one-transition Event whose Transition carries the equation (no rate on the Event)
  trans_event  a bare Transition with its equation handed to event= / add_event (converted by PyGOM)
  legacy       transition=[...] (T) or birth_death=[...] (B/D); single transition, magnitude 1 only
  add_*        the same four, but added after construction through add_event/add_transition/add_birth_death

Declarations: state_decl / param_decl in {"list", "string", "objects"}; "objects" hands over ODEVariable(ID, display)
with the display names of model["state_display"] / model["param_display"] (identifier when not listed).

Births may be named by origin (legacy spelling) or by destination: tr["birth_by"] in {"o","d"}.
"""
import numpy as np


def _transition(T, tr, equation=None):
    ty = tr["type"]
    mag = tr.get("mag", "1")
    kw = {}
    if equation is not None:
        kw["equation"] = equation
    if mag != "1" or tr.get("force_mag"):
        kw["magnitude"] = mag
    if ty == "T":
        return T(origin=tr["o"], destination=tr["d"], transition_type="T", **kw)
    if ty == "B":
        if tr.get("birth_by", "d") == "o":
            return T(origin=tr["d"], transition_type="B", **kw)
        return T(destination=tr["d"], transition_type="B", **kw)
    if ty == "D":
        return T(origin=tr["o"], transition_type="D", **kw)
    raise ValueError(ty)


def legacy_ok(pr):
    return len(pr["trans"]) == 1 and pr["trans"][0].get("mag", "1") == "1"


def make_process(pg, pr, route):
    """Return (slot, object) where slot in {'event','transition','birth_death'}."""
    T, E = pg.Transition, pg.Event
    base = route[4:] if route.startswith("add_") else route
    if base == "event":
        return "event", E(rate=pr["rate"], transition_list=[_transition(T, tr) for tr in pr["trans"]])
    if base == "event_eq":
        trs = [_transition(T, tr) for tr in pr["trans"][:-1]]
        trs.append(_transition(T, pr["trans"][-1], equation=pr["rate"]))
        return "event", E(transition_list=trs)
    if base == "trans_event":
        assert len(pr["trans"]) == 1
        return "event", _transition(T, pr["trans"][0], equation=pr["rate"])
    if base == "legacy":
        assert legacy_ok(pr)
        tr = pr["trans"][0]
        obj = _transition(T, tr, equation=pr["rate"])
        return ("transition" if tr["type"] == "T" else "birth_death"), obj
    raise ValueError(route)


def _ode_variable(name, display):
    from pygom import ODEVariable
    return ODEVariable(name, display.get(name, name))


def state_decl(model):
    style = model.get("state_decl", "list")
    names = [s["name"] for s in model["states"]]
    has_lim = any(s.get("lim") is not None for s in model["states"])
    if style == "string" and not has_lim:
        return model.get("state_sep", " ").join(names)
    if style == "objects" and not has_lim:
        # ODEVariable objects: identifier plus a display name that may differ from it (and may be
        # another variable's identifier); every lookup must go by identifier
        return [_ode_variable(nm, model.get("state_display", {})) for nm in names]
    out = []
    for s in model["states"]:
        if s.get("lim") is not None:
            out.append((s["name"], (s["lim"][0], s["lim"][1])))
        else:
            out.append(s["name"])
    return out


def param_decl(model):
    style = model.get("param_decl", "list")
    names = list(model["params"])
    if style == "string":
        return model.get("param_sep", ",").join(names)
    if style == "objects":
        return [_ode_variable(nm, model.get("param_display", {})) for nm in names]
    return names


def build_model(pg, model, routes=None, order=None, backend=None, cls=None):
    """Construct a SimulateOde for `model`.

    routes: list (one per process) of route names; default 'event'.
    order : permutation of process indices giving the order in which processes are handed over
            (within constructor lists and across the add_* calls).
    backend: None keeps PyGOM's own choice (compileCode(backend='cython')); 'lambda' uses PyGOM's
            configuration seam to select the lambdify back-end.
    """
    procs = model.get("processes", [])
    if routes is None:
        routes = [pr.get("route", "event") for pr in procs]
    if order is None:
        order = list(range(len(procs)))
    slots = {"event": [], "transition": [], "birth_death": []}
    later = []
    for i in order:
        slot, obj = make_process(pg, procs[i], routes[i])
        if routes[i].startswith("add_"):
            later.append((slot, obj))
        else:
            slots[slot].append(obj)
    odes = [pg.Transition(origin=o["state"], equation=o["eq"], transition_type="ODE")
            for o in model.get("odes", [])]
    ode_now = [o for o, d in zip(odes, model.get("odes", [])) if not d.get("add")]
    ode_later = [o for o, d in zip(odes, model.get("odes", [])) if d.get("add")]
    derived = [tuple(d) for d in model.get("derived", [])]
    klass = cls or pg.SimulateOde
    kw = dict(state=state_decl(model), param=param_decl(model))
    if derived:
        kw["derived_param"] = derived
    if slots["event"]:
        kw["event"] = slots["event"]
    if slots["transition"]:
        kw["transition"] = slots["transition"]
    if slots["birth_death"]:
        kw["birth_death"] = slots["birth_death"]
    if ode_now:
        kw["ode"] = ode_now
    ode = klass(**kw)
    if backend is not None:
        ode._SC = pg.compileCode(backend=backend)
    for slot, obj in later:
        if slot == "event":
            ode.add_event(obj)
        elif slot == "transition":
            ode.add_transition(obj)
        else:
            ode.add_birth_death(obj)
    for o in ode_later:
        ode.add_ode(o)
    return ode


def insertion_order(model, routes=None, order=None):
    """Indices of model['processes'] in the order in which PyGOM receives them for the given routes:
    constructor event= list, then transition=, then birth_death=, then the add_* calls.  The order of
    PyGOM's event list (and hence of rate-vector entries, state-change columns and count vectors) is
    the order of insertion."""
    procs = model.get("processes", [])
    if routes is None:
        routes = [pr.get("route", "event") for pr in procs]
    if order is None:
        order = list(range(len(procs)))
    slots = {"event": [], "transition": [], "birth_death": []}
    later = []
    for i in order:
        r = routes[i]
        base = r[4:] if r.startswith("add_") else r
        if base == "legacy":
            slot = "transition" if procs[i]["trans"][0]["type"] == "T" else "birth_death"
        else:
            slot = "event"
        if r.startswith("add_"):
            later.append(i)
        else:
            slots[slot].append(i)
    return slots["event"] + slots["transition"] + slots["birth_death"] + later


def np_time(t):
    """PyGOM's jump loop needs a numpy scalar initial time (it calls t0.tolist())."""
    return np.float64(t)

"""RefSolve / RefLoss: independent reference solutions and loss values (no PyGOM import).

Trajectories by scipy.integrate.solve_ivp (DOP853, pure-Python Runge-Kutta code path, different from
both odeint and scipy.integrate.ode that PyGOM uses) at rtol=1e-11, atol=1e-12 on the reference model's
right-hand side; variational systems [x; S; S0] integrated the same way from the reference J and G.
"""
import math

import numpy as np
import scipy.integrate
import scipy.stats
import sympy as sp


class RefSolveError(Exception):
    pass


def _vecfn(ref, what):
    key = ("vec", what)
    if key not in ref._cache:
        expr = ref.sym(what)
        args = ref.xs + [ref.t] + ref.ths
        ref._cache[key] = (sp.lambdify(args, list(expr), modules="math"), expr.shape)
    return ref._cache[key]


def fvec(ref, what, x, t, theta):
    f, shape = _vecfn(ref, what)
    vals = f(*(list(x) + [t] + list(theta)))
    return np.array(vals, float).reshape(shape)


def solve(ref, theta, x0, t0, times, rtol=1e-11, atol=1e-12, max_nfev=400000):
    """Solution at `times` (all >= t0, non-decreasing).  Returns array (len(times), n)."""
    times = [float(v) for v in times]
    f, _ = _vecfn(ref, "f")
    th = [float(v) for v in theta]
    count = [0]

    def rhs(t, x):
        count[0] += 1
        if count[0] > max_nfev:
            raise RefSolveError("too many rhs evaluations")
        return f(*(list(x) + [t] + th))
    if not times:
        return np.zeros((0, ref.n))
    tend = max(times)
    if tend <= t0:
        return np.array([list(map(float, x0)) for _ in times])
    try:
        sol = scipy.integrate.solve_ivp(rhs, (float(t0), tend), np.array(x0, float), method="DOP853",
                                        rtol=rtol, atol=atol, dense_output=False,
                                        t_eval=sorted(set([t for t in times if t > t0])))
    except (OverflowError, ValueError, ZeroDivisionError, FloatingPointError) as e:
        raise RefSolveError(str(e))
    if not sol.success:
        raise RefSolveError(sol.message)
    table = {float(t): sol.y[:, i] for i, t in enumerate(sol.t)}
    out = []
    for t in times:
        if t <= t0:
            out.append(np.array(x0, float))
        else:
            out.append(table[float(t)])
    out = np.array(out, float)
    if not np.all(np.isfinite(out)):
        raise RefSolveError("non-finite reference solution")
    return out


def solve_sens(ref, theta, x0, t0, times, rtol=1e-10, atol=1e-12, with_iv=True, max_nfev=400000):
    """Reference variational solution.  Returns (X, S, S0): X (T,n), S (T,n,p) = dx/dtheta,
    S0 (T,n,n) = dx/dx0."""
    n, p = ref.n, ref.p
    times = [float(v) for v in times]
    f, _ = _vecfn(ref, "f")
    Jf, _ = _vecfn(ref, "J")
    Gf = _vecfn(ref, "G")[0] if p else None
    th = [float(v) for v in theta]
    count = [0]

    def rhs(t, z):
        count[0] += 1
        if count[0] > max_nfev:
            raise RefSolveError("too many rhs evaluations")
        x = list(z[:n])
        a = x + [t] + th
        fx = np.array(f(*a), float)
        J = np.array(Jf(*a), float).reshape(n, n)
        out = [fx]
        if p:
            G = np.array(Gf(*a), float).reshape(n, p)
            S = z[n:n + n * p].reshape(n, p)
            out.append((J.dot(S) + G).ravel())
        if with_iv:
            S0 = z[n + n * p:].reshape(n, n)
            out.append(J.dot(S0).ravel())
        return np.concatenate(out)
    z0 = [np.array(x0, float), np.zeros(n * p)]
    if with_iv:
        z0.append(np.eye(n).ravel())
    z0 = np.concatenate(z0)
    tend = max(times)
    try:
        sol = scipy.integrate.solve_ivp(rhs, (float(t0), tend), z0, method="DOP853", rtol=rtol, atol=atol,
                                        t_eval=sorted(set([t for t in times if t > t0])))
    except (OverflowError, ValueError, ZeroDivisionError, FloatingPointError) as e:
        raise RefSolveError(str(e))
    if not sol.success:
        raise RefSolveError(sol.message)
    table = {float(t): sol.y[:, i] for i, t in enumerate(sol.t)}
    X, S, S0 = [], [], []
    for t in times:
        z = z0 if t <= t0 else table[float(t)]
        X.append(z[:n])
        S.append(z[n:n + n * p].reshape(n, p))
        if with_iv:
            S0.append(z[n + n * p:].reshape(n, n))
    return np.array(X), np.array(S), (np.array(S0) if with_iv else None)


def solve_second_order(ref, theta, x0, t0, times, truncated, rtol=1e-10, atol=1e-12, max_nfev=400000):
    """Second-order sensitivities d2x_i/dtheta_k dtheta_l, returned as (T, n, p, p).
    truncated=True integrates the system WITHOUT the mixed state-parameter terms and without
    d2f/dtheta2 (PyGOM's known finding D8); truncated=False the true system."""
    n, p = ref.n, ref.p
    times = [float(v) for v in times]
    f, _ = _vecfn(ref, "f")
    Jf, _ = _vecfn(ref, "J")
    Gf, _ = _vecfn(ref, "G")
    dJf, _ = _vecfn(ref, "dJ")
    GJf, _ = _vecfn(ref, "GJ")
    key = ("vecH",)
    if key not in ref._cache:
        args = ref.xs + [ref.t] + ref.ths
        flat = []
        for H in ref.sym("H"):
            flat.extend(list(H))
        ref._cache[key] = sp.lambdify(args, flat, modules="math")
    Hf = ref._cache[key]
    th = [float(v) for v in theta]
    count = [0]

    def rhs(t, z):
        count[0] += 1
        if count[0] > max_nfev:
            raise RefSolveError("too many rhs evaluations")
        x = list(z[:n])
        a = x + [t] + th
        fx = np.array(f(*a), float)
        J = np.array(Jf(*a), float).reshape(n, n)
        G = np.array(Gf(*a), float).reshape(n, p)
        dJ = np.array(dJf(*a), float).reshape(n, n, n)          # [i, j, l]
        S = z[n:n + n * p].reshape(n, p)
        W = z[n + n * p:].reshape(n, p, p)
        dS = J.dot(S) + G
        dW = np.einsum("ij,jkl->ikl", J, W) + np.einsum("ijm,jk,ml->ikl", dJ, S, S)
        if not truncated:
            GJ = np.array(GJf(*a), float).reshape(p, n, n)      # [k, i, l] = d2 f_i / d th_k d x_l
            H = np.array(Hf(*a), float).reshape(n, p, p)
            mixed = np.einsum("kim,ml->ikl", GJ, S)              # sum_m d2f_i/dth_k dx_m * S[m,l]
            dW = dW + mixed + mixed.transpose(0, 2, 1) + H
        return np.concatenate([fx, dS.ravel(), dW.ravel()])
    z0 = np.concatenate([np.array(x0, float), np.zeros(n * p + n * p * p)])
    tend = max(times)
    try:
        sol = scipy.integrate.solve_ivp(rhs, (float(t0), tend), z0, method="DOP853", rtol=rtol, atol=atol,
                                        t_eval=sorted(set([t for t in times if t > t0])))
    except (OverflowError, ValueError, ZeroDivisionError, FloatingPointError) as e:
        raise RefSolveError(str(e))
    if not sol.success:
        raise RefSolveError(sol.message)
    table = {float(t): sol.y[:, i] for i, t in enumerate(sol.t)}
    X, S, W = [], [], []
    for t in times:
        z = z0 if t <= t0 else table[float(t)]
        X.append(z[:n])
        S.append(z[n:n + n * p].reshape(n, p))
        W.append(z[n + n * p:].reshape(n, p, p))
    return np.array(X), np.array(S), np.array(W)


# ---------------------------------------------------------------------------------------------------
# RefLoss
# ---------------------------------------------------------------------------------------------------
def ref_loss(cls, y, yhat, weights=None, spread=None):
    """-sum log density (or weighted squared residuals) from scipy.stats; y, yhat arrays (T, s)."""
    y = np.asarray(y, float)
    yhat = np.asarray(yhat, float)
    w = np.ones_like(y) if weights is None else np.broadcast_to(np.asarray(weights, float), y.shape)
    if cls == "SquareLoss":
        return float(np.sum((w * (y - yhat)) ** 2))
    if cls == "NormalLoss":
        sig = np.broadcast_to(np.asarray(1.0 if spread is None else spread, float), y.shape)
        return float(-np.sum(scipy.stats.norm.logpdf(w * (y - yhat), loc=0.0, scale=sig)))
    if cls == "PoissonLoss":
        return float(-np.sum(scipy.stats.poisson.logpmf(y, yhat)))
    if cls == "GammaLoss":
        a = np.broadcast_to(np.asarray(2.0 if spread is None else spread, float), y.shape)
        return float(-np.sum(scipy.stats.gamma.logpdf(y, a=a, scale=yhat / a)))
    if cls == "NegBinomLoss":
        k = np.broadcast_to(np.asarray(1.0 if spread is None else spread, float), y.shape)
        return float(-np.sum(scipy.stats.nbinom.logpmf(y, n=k, p=k / (k + yhat))))
    raise ValueError(cls)
